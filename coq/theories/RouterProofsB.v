(* RouterProofsB.v — structural lemmas about the router tree model: stored paths, depth(),
   exists() and what shrink() keeps / removes. Everything is by the nested induction principle
   [node_ind2]; the only automation is lia. *)
From Coq Require Import List ZArith Bool Lia.
From Tulz Require Import Common RouterModel RouterSpec.
Import ListNotations.
Local Open Scope Z_scope.

(* ---- induction principle for the nested inductive ---------------------------------------- *)

Lemma node_ind2 : forall P : node -> Prop,
  (forall nm sj ch, Forall P ch -> P (Node nm sj ch)) -> forall n, P n.
Proof.
  intros P H.
  refine (fix IH (n : node) : P n :=
            match n with
            | Node nm sj ch =>
                H nm sj ch ((fix go (l : list node) : Forall P l :=
                               match l with
                               | [] => Forall_nil P
                               | c :: l' => Forall_cons c (IH c) (go l')
                               end) ch)
            end).
Qed.

(* ---- generic list helpers ------------------------------------------------------------------ *)

Lemma existsb_flat_map_B : forall (A B : Type) (f : B -> bool) (g : A -> list B) (l : list A),
  existsb f (flat_map g l) = existsb (fun x => existsb f (g x)) l.
Proof.
  intros A B f g l. induction l as [|a l IH]; [reflexivity|].
  cbn [flat_map existsb]. rewrite existsb_app, IH. reflexivity.
Qed.

Lemma existsb_map_B : forall (A B : Type) (f : B -> bool) (g : A -> B) (l : list A),
  existsb f (map g l) = existsb (fun x => f (g x)) l.
Proof.
  intros A B f g l. induction l as [|a l IH]; [reflexivity|].
  cbn [map existsb]. rewrite IH. reflexivity.
Qed.

Lemma existsb_andb_const_B : forall (A : Type) (b : bool) (f : A -> bool) (l : list A),
  existsb (fun x => b && f x) l = b && existsb f l.
Proof.
  intros A b f l. induction l as [|a l IH]; cbn [existsb].
  - destruct b; reflexivity.
  - rewrite IH. destruct b; reflexivity.
Qed.

Lemma existsb_ext_in_B : forall (A : Type) (f g : A -> bool) (l : list A),
  (forall x, In x l -> f x = g x) -> existsb f l = existsb g l.
Proof.
  intros A f g l H. induction l as [|a l IH]; [reflexivity|].
  cbn [existsb]. rewrite (H a (or_introl eq_refl)), IH; [reflexivity|].
  intros x Hx. apply H. right. exact Hx.
Qed.

Definition maxl (l : list Z) : Z := fold_right Z.max 0 l.

Lemma maxl_nonneg : forall l, 0 <= maxl l.
Proof. induction l as [|a l IH]; unfold maxl in *; cbn [fold_right]; lia. Qed.

Lemma maxl_app : forall l1 l2, maxl (l1 ++ l2) = Z.max (maxl l1) (maxl l2).
Proof.
  intros l1 l2. induction l1 as [|a l1 IH]; unfold maxl in *; cbn [app fold_right].
  - pose proof (maxl_nonneg l2) as H. unfold maxl in H. lia.
  - rewrite IH. lia.
Qed.

Lemma maxl_in : forall x l, In x l -> x <= maxl l.
Proof.
  intros x l. induction l as [|a l IH]; intros H; [contradiction|].
  unfold maxl in *. cbn [fold_right]. destruct H as [H|H]; [subst; lia|].
  specialize (IH H). lia.
Qed.

Lemma Zlen_cons_B : forall (A : Type) (a : A) (l : list A), Zlen (a :: l) = 1 + Zlen l.
Proof. intros. unfold Zlen. cbn [length]. lia. Qed.

Lemma maxl_cons_paths : forall (k : Z) (ps : list (list Z)),
  maxl (map (@Zlen Z) (map (cons k) ps)) =
  match ps with [] => 0 | _ => 1 + maxl (map (@Zlen Z) ps) end.
Proof.
  intros k ps. induction ps as [|a ps IH]; [reflexivity|].
  cbn [map]. unfold maxl in *. cbn [fold_right]. rewrite IH.
  rewrite Zlen_cons_B.
  assert (0 <= Zlen a) by (unfold Zlen; lia).
  destruct ps as [|b ps]; cbn [map fold_right]; lia.
Qed.

(* ---- paths ------------------------------------------------------------------------------------ *)

Lemma In_paths_nil : forall n, In [] (paths n).
Proof. intros [nm sj ch]. cbn [paths]. left. reflexivity. Qed.

Lemma In_paths_cons : forall n k p,
  In (k :: p) (paths n) <-> exists c, In c (nchildren n) /\ nname c = k /\ In p (paths c).
Proof.
  intros [nm sj ch] k p. cbn [paths nchildren]. split.
  - intros [H|H]; [discriminate|].
    apply in_flat_map in H. destruct H as [c [Hc H]].
    apply in_map_iff in H. destruct H as [p' [E Hp]].
    injection E as E1 E2. subst. exists c. auto.
  - intros [c [Hc [E Hp]]]. right. apply in_flat_map. exists c. split; [exact Hc|].
    apply in_map_iff. exists p. subst. auto.
Qed.

Lemma paths_prefix_closed : forall n p q, In (p ++ q) (paths n) -> In p (paths n).
Proof.
  intros n p. revert n. induction p as [|k p IH]; intros n q H.
  - apply In_paths_nil.
  - cbn [app] in H. apply In_paths_cons in H. destruct H as [c [Hc [E Hp]]].
    apply In_paths_cons. exists c. split; [exact Hc|]. split; [exact E|].
    eapply IH. exact Hp.
Qed.

(* ---- depth ------------------------------------------------------------------------------------ *)

Lemma depth_spec : forall n, depth_node n = 1 + fold_right Z.max 0 (map Zlen (paths n)).
Proof.
  apply (node_ind2 (fun n => depth_node n = 1 + fold_right Z.max 0 (map Zlen (paths n)))).
  intros nm sj ch IH. cbn [depth_node paths map fold_right].
  change (@Zlen Z []) with 0.
  assert (E : fold_right Z.max 0 (map (@Zlen Z) (flat_map (fun c => map (cons (nname c)) (paths c)) ch))
              = fold_right Z.max 0 (map depth_node ch)).
  { induction IH as [|c ch Hc Hch IHch]; [reflexivity|].
    cbn [flat_map map fold_right]. rewrite map_app.
    fold (maxl (map (@Zlen Z) (map (cons (nname c)) (paths c)) ++
                map (@Zlen Z) (flat_map (fun c0 => map (cons (nname c0)) (paths c0)) ch))).
    rewrite maxl_app, maxl_cons_paths. unfold maxl at 2. rewrite IHch. rewrite Hc.
    destruct c as [nm' sj' ch']. cbn [paths]. unfold maxl. reflexivity. }
  rewrite E.
  pose proof (maxl_nonneg (map depth_node ch)) as H. unfold maxl in H. lia.
Qed.

Lemma depth_pos : forall n, 1 <= depth_node n.
Proof.
  intros [nm sj ch]. cbn [depth_node].
  pose proof (maxl_nonneg (map depth_node ch)) as H. unfold maxl in H. lia.
Qed.

Lemma depth_child : forall c ch, In c ch -> depth_node c <= fold_right Z.max 0 (map depth_node ch).
Proof.
  intros c ch H. apply (maxl_in (depth_node c) (map depth_node ch)). apply in_map. exact H.
Qed.

(* ---- exists ----------------------------------------------------------------------------------- *)

Lemma exists_spec : forall n l pat,
  exists_node n (l :: pat) = matches l (nname n) && existsb (key_matches pat) (paths n).
Proof.
  apply (node_ind2 (fun n => forall l pat,
    exists_node n (l :: pat) = matches l (nname n) && existsb (key_matches pat) (paths n))).
  intros nm sj ch IH l pat. rewrite Forall_forall in IH.
  cbn [exists_node nname paths].
  destruct (matches l nm); cbn [negb andb]; [|reflexivity].
  destruct pat as [|nl pat'].
  - reflexivity.
  - cbn [existsb]. change (key_matches (nl :: pat') []) with false. cbn [orb].
    rewrite existsb_flat_map_B.
    assert (E : forall c, In c ch ->
              existsb (key_matches (nl :: pat')) (map (cons (nname c)) (paths c))
              = exists_node c (nl :: pat')).
    { intros c Hc. rewrite existsb_map_B. cbn [key_matches].
      rewrite existsb_andb_const_B. symmetry. apply IH. exact Hc. }
    destruct (is_regex nl) eqn:R.
    + apply existsb_ext_in_B. intros c Hc. symmetry. apply E. exact Hc.
    + apply existsb_ext_in_B. intros c Hc. rewrite (E c Hc).
      destruct nl as [x|ms]; [|discriminate].
      rewrite (IH c Hc). cbn [matches]. rewrite (Z.eqb_sym (nname c) x).
      destruct (x =? nname c); reflexivity.
Qed.

(* ---- shrink: unfolding ---------------------------------------------------------------------- *)

(* what shrink does to a child of a visited node, [rest] being the levels from the child on *)
Definition gsel (rest : list level) (c : node) : node :=
  match rest with
  | [] => c
  | nl :: _ =>
      if is_regex nl then shrink_node c rest
      else if nname c =? (match nl with LStr x => x | LRx _ => 0 end) then shrink_node c rest else c
  end.

Lemma shrink_unfold : forall nm sj ch l rest,
  shrink_node (Node nm sj ch) (l :: rest) =
  if negb (matches l nm) then Node nm sj ch
  else Node nm sj (filter (fun c => negb (is_empty c)) (map (gsel rest) ch)).
Proof.
  intros nm sj ch l rest. cbn [shrink_node].
  destruct (negb (matches l nm)); [reflexivity|].
  destruct rest as [|nl rest'].
  - unfold gsel. rewrite map_id. reflexivity.
  - unfold gsel. destruct (is_regex nl); reflexivity.
Qed.

Lemma nname_shrink : forall n lv, nname (shrink_node n lv) = nname n.
Proof.
  intros [nm sj ch] [|l rest]; [reflexivity|].
  rewrite shrink_unfold. destruct (negb (matches l nm)); reflexivity.
Qed.

Lemma nname_gsel : forall rest c, nname (gsel rest c) = nname c.
Proof.
  intros [|nl rest] c; [reflexivity|]. unfold gsel.
  destruct (is_regex nl); [apply nname_shrink|].
  destruct (nname c =? _); [apply nname_shrink|reflexivity].
Qed.

Lemma gsel_cases : forall rest c,
  gsel rest c = c \/ exists nl pat', rest = nl :: pat' /\ gsel rest c = shrink_node c (nl :: pat').
Proof.
  intros [|nl rest] c; [left; reflexivity|]. unfold gsel.
  destruct (is_regex nl); [right; eauto|].
  destruct (nname c =? _); [right; eauto|left; reflexivity].
Qed.

Lemma gsel_regex : forall nl pat' c, is_regex nl = true -> gsel (nl :: pat') c = shrink_node c (nl :: pat').
Proof. intros nl pat' c H. unfold gsel. rewrite H. reflexivity. Qed.

(* ---- empty nodes -------------------------------------------------------------------------------- *)

Lemma is_empty_flat : forall c, is_empty c = true -> flat c = [].
Proof.
  intros [nm sj ch] H. cbn [is_empty] in H. apply andb_true_iff in H. destruct H as [H1 H2].
  destruct ch as [|d ch]; [|discriminate].
  cbn [flat flat_map]. rewrite app_nil_r.
  destruct sj as [s|]; cbn [live_subs]; [|reflexivity].
  destruct (s_subs s); [reflexivity|discriminate].
Qed.

Lemma is_empty_paths : forall c, is_empty c = true -> paths c = [[]].
Proof.
  intros [nm sj ch] H. cbn [is_empty] in H. apply andb_true_iff in H. destruct H as [H1 H2].
  destruct ch as [|d ch]; [|discriminate]. reflexivity.
Qed.

Lemma paths_cons_nonempty : forall m k q, In (k :: q) (paths m) -> is_empty m = false.
Proof.
  intros [nm sj ch] k q H. apply In_paths_cons in H. destruct H as [c [Hc _]].
  cbn [nchildren] in Hc. cbn [is_empty]. destruct ch; [contradiction|]. apply andb_false_r.
Qed.

(* ---- flat --------------------------------------------------------------------------------------- *)

Lemma flat_child : forall nm sj ch c e,
  In c ch -> In e (flat c) -> In (nname c :: fst e, snd e) (flat (Node nm sj ch)).
Proof.
  intros nm sj ch c e Hc He. cbn [flat]. apply in_or_app. right.
  apply in_flat_map. exists c. split; [exact Hc|].
  apply in_map_iff. exists e. auto.
Qed.

Lemma flat_paths : forall n e, In e (flat n) -> In (fst e) (paths n).
Proof.
  apply (node_ind2 (fun n => forall e, In e (flat n) -> In (fst e) (paths n))).
  intros nm sj ch IH e H. rewrite Forall_forall in IH.
  cbn [flat] in H. apply in_app_or in H. destruct H as [H|H].
  - destruct (live_subs sj); [contradiction|].
    destruct H as [H|[]]. subst e. apply In_paths_nil.
  - apply in_flat_map in H. destruct H as [c [Hc H]].
    apply in_map_iff in H. destruct H as [e' [E He']]. subst e. cbn [fst].
    apply In_paths_cons. exists c. cbn [nchildren]. auto.
Qed.

Lemma flat_map_shrunk : forall (g : node -> node) (ch : list node),
  (forall c, In c ch -> nname (g c) = nname c /\ flat (g c) = flat c) ->
  flat_map (fun c => map (fun e => (nname c :: fst e, snd e)) (flat c))
           (filter (fun c => negb (is_empty c)) (map g ch))
  = flat_map (fun c => map (fun e => (nname c :: fst e, snd e)) (flat c)) ch.
Proof.
  intros g ch H. induction ch as [|c ch IH]; [reflexivity|].
  cbn [map filter flat_map].
  destruct (H c (or_introl eq_refl)) as [E1 E2].
  assert (IH' := IH (fun d Hd => H d (or_intror Hd))).
  destruct (is_empty (g c)) eqn:E; cbn [negb].
  - rewrite IH'. rewrite <- E2. rewrite (is_empty_flat _ E). reflexivity.
  - cbn [flat_map]. rewrite IH', E1, E2. reflexivity.
Qed.

Lemma shrink_flat_B : forall n lv, flat (shrink_node n lv) = flat n.
Proof.
  apply (node_ind2 (fun n => forall lv, flat (shrink_node n lv) = flat n)).
  intros nm sj ch IH lv. rewrite Forall_forall in IH.
  destruct lv as [|l rest]; [reflexivity|].
  rewrite shrink_unfold. destruct (negb (matches l nm)); [reflexivity|].
  cbn [flat]. f_equal. apply flat_map_shrunk.
  intros c Hc. split; [apply nname_gsel|].
  destruct (gsel_cases rest c) as [E|[nl [pat' [_ E]]]]; rewrite E; [reflexivity|].
  apply IH. exact Hc.
Qed.

(* ---- shrink keeps what is live ---------------------------------------------------------------- *)

Lemma shrink_keeps_live : forall n lv e p,
  In e (flat n) -> firstn (length p) (fst e) = p -> In p (paths (shrink_node n lv)).
Proof.
  intros n lv e p He Hp.
  rewrite <- (shrink_flat_B n lv) in He. apply flat_paths in He.
  rewrite <- (firstn_skipn (length p) (fst e)) in He. rewrite Hp in He.
  eapply paths_prefix_closed. exact He.
Qed.

(* ---- shrink removes only dead nodes along the pattern ---------------------------------------- *)

Lemma shrink_removed_along_pattern : forall n l pat p,
  In p (paths n) -> ~ In p (paths (shrink_node n (l :: pat))) ->
  exists p' k, p = p' ++ [k] /\ (length p' <= length pat)%nat /\
               key_matches (firstn (length p') pat) p' = true /\ matches l (nname n) = true.
Proof.
  apply (node_ind2 (fun n => forall l pat p,
    In p (paths n) -> ~ In p (paths (shrink_node n (l :: pat))) ->
    exists p' k, p = p' ++ [k] /\ (length p' <= length pat)%nat /\
                 key_matches (firstn (length p') pat) p' = true /\ matches l (nname n) = true)).
  intros nm sj ch IH l pat p Hin Hnot. rewrite Forall_forall in IH.
  rewrite shrink_unfold in Hnot. cbn [nname].
  destruct (matches l nm) eqn:M; cbn [negb] in Hnot; [|contradiction].
  destruct p as [|k q].
  { exfalso. apply Hnot. apply In_paths_nil. }
  apply In_paths_cons in Hin. destruct Hin as [c [Hc [Ek Hq]]]. cbn [nchildren] in Hc.
  assert (Hg : is_empty (gsel pat c) = true \/ ~ In q (paths (gsel pat c))).
  { destruct (is_empty (gsel pat c)) eqn:E; [left; reflexivity|right].
    intro Hq'. apply Hnot. apply In_paths_cons. exists (gsel pat c). cbn [nchildren].
    split.
    - apply filter_In. split; [apply in_map; exact Hc|]. rewrite E. reflexivity.
    - split; [rewrite nname_gsel; exact Ek|exact Hq']. }
  destruct q as [|k' q'].
  - exists [], k. split; [reflexivity|]. split; [cbn [length]; lia|].
    split; [reflexivity|reflexivity].
  - assert (Hq2 : ~ In (k' :: q') (paths (gsel pat c))).
    { destruct Hg as [E|Hg]; [|exact Hg]. rewrite (is_empty_paths _ E).
      intros [X|[]]. discriminate. }
    destruct (gsel_cases pat c) as [Eg|[nl [pat' [Ep Eg]]]].
    { rewrite Eg in Hq2. contradiction. }
    subst pat. rewrite Eg in Hq2.
    destruct (IH c Hc nl pat' (k' :: q') Hq Hq2) as [p' [k2 [E1 [E2 [E3 E4]]]]].
    exists (k :: p'), k2. split; [rewrite E1; reflexivity|].
    split; [cbn [length]; lia|].
    split; [|reflexivity].
    cbn [length firstn key_matches]. rewrite E3. subst k. rewrite E4. reflexivity.
Qed.

Lemma shrink_removes_only_dead : forall n l pat p,
  In p (paths n) -> ~ In p (paths (shrink_node n (l :: pat))) ->
  (forall e, In e (flat n) -> firstn (length p) (fst e) <> p) /\
  exists p' k, p = p' ++ [k] /\ (length p' <= length pat)%nat /\
               key_matches (firstn (length p') pat) p' = true /\ matches l (nname n) = true.
Proof.
  intros n l pat p Hin Hnot. split.
  - intros e He Hp. apply Hnot. eapply shrink_keeps_live; eassumption.
  - apply shrink_removed_along_pattern; assumption.
Qed.

(* ---- a deep wildcard pattern removes every dead branch -------------------------------------- *)

Lemma all_wildcard_regex : forall pat l, all_wildcard pat -> In l pat -> is_regex l = true.
Proof.
  intros pat [x|ms] H Hin; [|reflexivity].
  specialize (H (LStr x) (x + 1) Hin). cbn [matches] in H. apply Z.eqb_eq in H. lia.
Qed.

Lemma all_wildcard_tail : forall nl pat', all_wildcard (nl :: pat') -> all_wildcard pat'.
Proof. intros nl pat' H l name Hin. apply H. right. exact Hin. Qed.

(* if every child's paths are covered by entries, so are the paths of a non-empty node *)
Lemma node_cover : forall nm sj ch,
  (forall c, In c ch -> forall q, In q (paths c) ->
     exists e, In e (flat c) /\ firstn (length q) (fst e) = q) ->
  is_empty (Node nm sj ch) = false ->
  forall q, In q (paths (Node nm sj ch)) ->
    exists e, In e (flat (Node nm sj ch)) /\ firstn (length q) (fst e) = q.
Proof.
  intros nm sj ch Hch NE q Hq. destruct q as [|k q'].
  - assert (Hcase : (exists a r, live_subs sj = a :: r) \/ exists c, In c ch).
    { cbn [is_empty] in NE. destruct ch as [|c ch']; [|right; exists c; left; reflexivity].
      left. rewrite andb_true_r in NE.
      destruct sj as [s|]; [|discriminate]. cbn [live_subs].
      destruct (s_subs s) as [|a r]; [discriminate|]. eauto. }
    destruct Hcase as [[a [r E]]|[c Hc]].
    + exists ([], a :: r). split; [|reflexivity].
      cbn [flat]. rewrite E. left. reflexivity.
    + destruct (Hch c Hc [] (In_paths_nil c)) as [e' [He' _]].
      exists (nname c :: fst e', snd e'). split; [|reflexivity].
      apply flat_child; assumption.
  - apply In_paths_cons in Hq. destruct Hq as [c [Hc [Ek Hq']]]. cbn [nchildren] in Hc.
    destruct (Hch c Hc q' Hq') as [e' [He' E']].
    exists (nname c :: fst e', snd e'). split; [apply flat_child; assumption|].
    cbn [fst length firstn]. rewrite E', Ek. reflexivity.
Qed.

Lemma full_wildcard_cover : forall n l pat,
  matches l (nname n) = true -> all_wildcard pat -> depth_node n - 1 <= Zlen pat ->
  is_empty (shrink_node n (l :: pat)) = false ->
  forall q, In q (paths (shrink_node n (l :: pat))) ->
    exists e, In e (flat (shrink_node n (l :: pat))) /\ firstn (length q) (fst e) = q.
Proof.
  apply (node_ind2 (fun n => forall l pat,
    matches l (nname n) = true -> all_wildcard pat -> depth_node n - 1 <= Zlen pat ->
    is_empty (shrink_node n (l :: pat)) = false ->
    forall q, In q (paths (shrink_node n (l :: pat))) ->
      exists e, In e (flat (shrink_node n (l :: pat))) /\ firstn (length q) (fst e) = q)).
  intros nm sj ch IH l pat M AW D. rewrite Forall_forall in IH.
  rewrite shrink_unfold. cbn [nname] in M. rewrite M. cbn [negb].
  apply node_cover.
  intros c' Hc'. apply filter_In in Hc'. destruct Hc' as [Hm NE'].
  apply in_map_iff in Hm. destruct Hm as [c [Ec Hc]].
  cbn [depth_node] in D.
  pose proof (depth_child c ch Hc) as D1. pose proof (depth_pos c) as D2.
  destruct pat as [|nl pat'].
  { exfalso. change (@Zlen level []) with 0 in D. lia. }
  rewrite gsel_regex in Ec by (apply (all_wildcard_regex _ _ AW); left; reflexivity).
  subst c'. apply (IH c Hc nl pat').
  - apply AW. left. reflexivity.
  - eapply all_wildcard_tail. exact AW.
  - rewrite Zlen_cons_B in D. lia.
  - apply negb_true_iff. exact NE'.
Qed.

Lemma full_wildcard_removes_all_dead : forall n l pat p,
  matches l (nname n) = true -> all_wildcard pat -> depth_node n - 1 <= Zlen pat ->
  In p (paths (shrink_node n (l :: pat))) -> p <> [] ->
  exists e, In e (flat (shrink_node n (l :: pat))) /\ firstn (length p) (fst e) = p.
Proof.
  intros n l pat p M AW D Hp Hne.
  apply full_wildcard_cover; try assumption.
  destruct p as [|k q]; [contradiction|].
  eapply paths_cons_nonempty. exact Hp.
Qed.
