(* Properties_C04.v — RingBuffer behaves as a bounded double-ended queue.
   Only statements, each closed by [exact <lemma of RingProofs>], and Print Assumptions. *)
From Coq Require Import List ZArith Bool Lia.
From Tulz Require Import Common RingModel RingInv RingProofs RingAliasProofs RingReach.
Import ListNotations.
Local Open Scope Z_scope.

(* modCap is the mathematical modulus, for negative arguments too (emplace_front at head 0). *)
Theorem C04_modCap_is_mod : forall a b, 0 < b -> modCap a b = a mod b.
Proof. exact modCap_is_mod. Qed.
Print Assumptions C04_modCap_is_mod.

(* Every operation preserves well-formedness and commutes with the abstraction to the bounded
   deque; element type arbitrary. (Per-operation statements; the trace theorem below is their
   composition.) *)
Theorem C04_emplace_back_refines : forall (V : Type) ow (r : ring V) v,
  wf r ->
  match emplace_back ow r v with
  | Some (r', _) => wf r' /\ d_push_back ow (abs r) v = Some (abs r') /\ at_ r' (size r' - 1) = Live v
  | None => d_push_back ow (abs r) v = None
  end.
Proof. exact @emplace_back_refines. Qed.
Print Assumptions C04_emplace_back_refines.

Theorem C04_emplace_front_refines : forall (V : Type) ow (r : ring V) v,
  wf r ->
  match emplace_front ow r v with
  | Some (r', _) => wf r' /\ d_push_front ow (abs r) v = Some (abs r') /\ at_ r' 0 = Live v
  | None => d_push_front ow (abs r) v = None
  end.
Proof. exact @emplace_front_refines. Qed.
Print Assumptions C04_emplace_front_refines.

Theorem C04_pop_back_refines : forall (V : Type) (r : ring V),
  wf r ->
  match pop_back r with
  | Some (r', s, _) => exists x, s = Live x /\ wf r' /\ d_pop_back (abs r) = Some (abs r', x)
  | None => d_pop_back (abs r) = None
  end.
Proof. exact @pop_back_refines. Qed.
Print Assumptions C04_pop_back_refines.

Theorem C04_pop_front_refines : forall (V : Type) (r : ring V),
  wf r ->
  match pop_front r with
  | Some (r', s, _) => exists x, s = Live x /\ wf r' /\ d_pop_front (abs r) = Some (abs r', x)
  | None => d_pop_front (abs r) = None
  end.
Proof. exact @pop_front_refines. Qed.
Print Assumptions C04_pop_front_refines.

(* resize keeps the first min(size, n) elements, in order, for every head position / layout *)
Theorem C04_resize_refines : forall (V : Type) (r : ring V) n,
  wf r ->
  match resize fixed_variant r n with
  | Some (r', _) => wf r' /\ d_resize (abs r) n = Some (abs r')
  | None => d_resize (abs r) n = None
  end.
Proof. exact @resize_refines. Qed.
Print Assumptions C04_resize_refines.

(* index access, front/back and iteration read exactly the deque's elements *)
Theorem C04_contents_are_items : forall (V : Type) (r : ring V),
  wf r -> contents r = map Live (items r) /\ Zlen (items r) = size r.
Proof. exact @contents_are_items. Qed.
Print Assumptions C04_contents_are_items.

(* a copy holds the same deque and is well-formed, whatever the layout of the source *)
Theorem C04_copy_refines : forall (V : Type) (dst src : ring V),
  wf0 dst -> wf0 src ->
  let r' := fst (copy_assign fixed_variant dst src) in
  wf0 r' /\ abs r' = abs src.
Proof. exact @copy_refines. Qed.
Print Assumptions C04_copy_refines.

(* THE property: for every history of operation lines over the three buffer variables — valid
   or not, any interleaving of pushes, pops, accesses, resizes, copies, moves, assignments,
   comparisons, constructions and destructions, both overwrite modes — the RingBuffer model
   returns exactly what the bounded deque returns, reports exactly its size, capacity and
   contents after every step, and rejects exactly the operations whose documented
   precondition fails. *)
Theorem C04_refines_deque : forall ow ops,
  map view_ring (ring_trace fixed_variant ow env0 ops) = map view_deque (deque_trace ow denv0 ops).
Proof. exact ring_refines_deque. Qed.
Print Assumptions C04_refines_deque.

(* Pushes whose argument refers to an element of the same buffer (push_back(rb[i]), push_front(rb[i]); the lines
   [16; b; i] and [17; b; i] of the correspondence runs): the trace of every history containing them is the trace of a
   history of ordinary operations — each aliasing push being the push of the value that element holds at that moment —
   so the theorem above covers them. *)
Theorem C04_alias_histories : forall ow ops,
  map view_ring (ring_trace_d fixed_variant ow env0 ops) =
  map view_deque (deque_trace ow denv0 (desugar_all fixed_variant ow env0 ops)).
Proof. exact alias_refines_deque. Qed.
Print Assumptions C04_alias_histories.

(* Reachable states.  [ring_run] is the environment a history leaves behind — the one whose dump closes the trace
   (C04_trace_ends_in_run) — and after EVERY history each buffer variable holds a well-formed buffer or the moved-from
   one: head inside the array, 0 <= size <= capacity, the array as long as the capacity, exactly the [size] logical
   positions hold elements and no other slot does (C04_wf_reachable); hence the logical contents are exactly [size]
   elements (C04_reachable_bounds). *)
Theorem C04_trace_ends_in_run : forall vr ow ops e,
  last (map snd (ring_trace vr ow e ops)) (dump_env e) = dump_env (ring_run vr ow e ops).
Proof. exact ring_trace_last. Qed.
Print Assumptions C04_trace_ends_in_run.

Theorem C04_wf_reachable : forall ow ops, wf_env (ring_run fixed_variant ow env0 ops).
Proof. exact ring_wf_reachable. Qed.
Print Assumptions C04_wf_reachable.

Theorem C04_reachable_bounds : forall ow ops b r,
  env_get (ring_run fixed_variant ow env0 ops) b = Some r ->
  0 <= size r <= cap r /\ Zlen (items r) = size r /\ contents r = map (@Live Z) (items r).
Proof. exact ring_reachable_bounds. Qed.
Print Assumptions C04_reachable_bounds.

(* non-vacuity: a wrapped-around, full, well-formed buffer exists and is reached by a history *)
Example C04_nonvacuous :
  map view_ring (ring_trace fixed_variant true env0 [[0;0;3];[1;0;10];[1;0;11];[1;0;12];[1;0;13];[2;0;9];[5;0;2]])
  = [(Some [], [0;3;-1;-1]); (Some [10], [1;3;10;-1;-1]); (Some [11], [2;3;10;11;-1;-1]);
     (Some [12], [3;3;10;11;12;-1;-1]); (Some [13], [3;3;11;12;13;-1;-1]);
     (Some [9], [3;3;9;11;12;-1;-1]); (Some [], [2;2;9;11;-1;-1])].
Proof. vm_compute. reflexivity. Qed.
