(* ArrayLemmasB.v — environments of array variables, the per-step relation and its generic
   introduction lemmas. *)
From Coq Require Import List ZArith Bool Lia ZifyBool Permutation.
From Tulz Require Import Common RingModel RingInv ArrayModel ArrayInv ArrayLemmasA.
Import ListNotations.
Local Open Scope Z_scope.

Ltac perm_solve :=
  repeat match goal with H : Permutation _ _ |- _ => rewrite (Permutation_count_occ Z.eq_dec) in H end;
  rewrite (Permutation_count_occ Z.eq_dec);
  let x0 := fresh "x0" in intros x0;
  repeat match goal with H : forall x, count_occ _ _ x = count_occ _ _ x |- _ => specialize (H x0) end;
  repeat match goal with
  | |- context [?a :: ?l] => lazymatch l with [] => fail | _ => change (a :: l) with ([a] ++ l) end
  | H : context [?a :: ?l] |- _ => lazymatch l with [] => fail | _ => change (a :: l) with ([a] ++ l) in H end
  end;
  rewrite ?count_occ_app in *; cbn [count_occ]; lia.

Definition oitems (o : option (arr Z)) : list Z :=
  match o with Some a => slot_vals (adata a) | None => [] end.
Definition oawf (cls : bool) (o : option (arr Z)) : Prop :=
  match o with Some a => awf cls a | None => True end.

Lemma alive_items_eq e : alive_items e = flat_map oitems e.
Proof. reflexivity. Qed.

Lemma awf_env_eq cls e : awf_env cls e <-> (length e = 3%nat /\ Forall (oawf cls) e).
Proof. reflexivity. Qed.

Lemma to_nat_Zlen {A} (l : list A) : Z.to_nat (Zlen l) = length l.
Proof. unfold Zlen. apply Nat2Z.id. Qed.

Lemma Zlen_abs_aenv e : Zlen (abs_aenv e) = Zlen e.
Proof. unfold Zlen, abs_aenv. rewrite map_length. reflexivity. Qed.

Lemma slot_ok_abs b e : sslot_ok b (abs_aenv e) = slot_ok b e.
Proof. unfold sslot_ok, slot_ok. rewrite Zlen_abs_aenv. reflexivity. Qed.

Lemma aenv_get_abs e b : senv_get (abs_aenv e) b = option_map abs_arr (aenv_get e b).
Proof.
  unfold senv_get, aenv_get, abs_aenv. destruct (0 <=? b); [|reflexivity].
  change (@None sarr) with (option_map abs_arr None). apply map_nth.
Qed.

Lemma abs_aenv_set e b o : abs_aenv (aenv_set e b o) = senv_set (abs_aenv e) b (option_map abs_arr o).
Proof.
  unfold aenv_set, senv_set. rewrite Zlen_abs_aenv.
  destruct ((0 <=? b) && (b <? Zlen e)); [|reflexivity]. apply map_list_set.
Qed.

Lemma Zlen_aenv_set e b o : Zlen (aenv_set e b o) = Zlen e.
Proof.
  unfold aenv_set. destruct ((0 <=? b) && (b <? Zlen e)); [|reflexivity].
  unfold Zlen. rewrite list_set_length. reflexivity.
Qed.

Lemma aenv_get_range e b r : aenv_get e b = Some r -> 0 <= b < Zlen e.
Proof.
  unfold aenv_get. destruct (0 <=? b) eqn:E; [|discriminate]. intros H.
  destruct (le_lt_dec (length e) (Z.to_nat b)) as [Hle|Hlt].
  - rewrite nth_overflow in H by exact Hle. discriminate.
  - unfold Zlen. lia.
Qed.

Lemma aenv_get_oawf cls e b : awf_env cls e -> oawf cls (aenv_get e b).
Proof.
  intros [_ HF]. unfold aenv_get. destruct (0 <=? b); [|exact I].
  destruct (le_lt_dec (length e) (Z.to_nat b)) as [Hle|Hlt].
  - rewrite nth_overflow by exact Hle. exact I.
  - apply (proj1 (Forall_nth _ _) HF). exact Hlt.
Qed.

Lemma aenv_get_awf cls e b a : awf_env cls e -> aenv_get e b = Some a -> awf cls a.
Proof. intros W H. pose proof (aenv_get_oawf cls e b W) as Ho. rewrite H in Ho. exact Ho. Qed.

Lemma awf_env_set cls e b o : awf_env cls e -> oawf cls o -> awf_env cls (aenv_set e b o).
Proof.
  intros [HL HF] Ho. unfold aenv_set. destruct ((0 <=? b) && (b <? Zlen e)); [|split; assumption].
  split.
  - rewrite list_set_length. exact HL.
  - apply Forall_list_set; assumption.
Qed.

Lemma aenv_get_set_same e b o : 0 <= b < Zlen e -> aenv_get (aenv_set e b o) b = o.
Proof.
  intros H. unfold aenv_get, aenv_set.
  replace ((0 <=? b) && (b <? Zlen e)) with true by lia.
  replace (0 <=? b) with true by lia. apply nth_list_set_same. unfold Zlen in H. lia.
Qed.

Lemma aenv_get_set_other e b c o : b <> c -> aenv_get (aenv_set e b o) c = aenv_get e c.
Proof.
  intros H. unfold aenv_get, aenv_set.
  destruct ((0 <=? b) && (b <? Zlen e)) eqn:E; [|reflexivity].
  destruct (0 <=? c) eqn:E2; [|reflexivity]. apply nth_list_set_other. lia.
Qed.

Lemma alive_items_list_set (l : aenv) : forall n o, (n < length l)%nat ->
  Permutation (oitems (nth n l None) ++ alive_items (list_set l n o)) (oitems o ++ alive_items l).
Proof.
  induction l as [|a l IH]; intros n o H; [cbn [length] in H; lia|].
  destruct n as [|n].
  - cbn [nth list_set]. rewrite !alive_items_eq. cbn [flat_map].
    apply Permutation_app_swap_app.
  - cbn [nth list_set].
    change (alive_items (a :: list_set l n o)) with (oitems a ++ alive_items (list_set l n o)).
    change (alive_items (a :: l)) with (oitems a ++ alive_items l).
    assert (H' : (n < length l)%nat) by (cbn [length] in H; lia).
    pose proof (IH n o H') as P. perm_solve.
Qed.

Lemma alive_items_set e b o : 0 <= b < Zlen e ->
  Permutation (oitems (aenv_get e b) ++ alive_items (aenv_set e b o)) (oitems o ++ alive_items e).
Proof.
  intros H. unfold aenv_get, aenv_set.
  replace ((0 <=? b) && (b <? Zlen e)) with true by lia.
  replace (0 <=? b) with true by lia. apply alive_items_list_set. unfold Zlen in H. lia.
Qed.

Lemma Zlen_abs_arr a : Zlen (abs_arr a) = Zlen (adata a).
Proof. unfold abs_arr, Zlen. rewrite map_length. reflexivity. Qed.

Lemma length_abs_arr a : length (abs_arr a) = length (adata a).
Proof. unfold abs_arr. apply map_length. Qed.

Lemma dump_arr_abs cls o : oawf cls o -> dump_arr o = dump_sarr (option_map abs_arr o).
Proof.
  destruct o as [a|]; [|reflexivity]. intros W. cbn [oawf] in W.
  destruct W as (W0 & W1 & W2 & W3).
  unfold dump_arr, dump_sarr, option_map.
  rewrite acontents_wf by exact W1. rewrite Zlen_abs_arr, W1.
  unfold abs_arr. rewrite map_slot_z_abs by exact W3. reflexivity.
Qed.

Lemma dump_aenv_abs cls e : awf_env cls e -> dump_aenv e = dump_senv (abs_aenv e).
Proof.
  intros [_ HF]. unfold dump_aenv, dump_senv, abs_aenv.
  induction HF as [|o l Ho Hl IH]; [reflexivity|].
  cbn [flat_map map]. rewrite IH, (dump_arr_abs cls) by exact Ho. reflexivity.
Qed.

(* ---- the per-step relation ---------------------------------------------------------------- *)

Definition astep_rel (cls : bool) (e e' : aenv) (o : aoutcome) (o' : soutcome) : Prop :=
  match o, o' with
  | Some (ret, evs), Some (ret', ct, rem) =>
      ret = ret' /\ forallb ev_ok evs = true /\ constructed evs = ct /\ removed evs = rem /\
      moved_out evs = [] /\
      (cls = true -> Permutation (constructed evs ++ assigned evs ++ alive_items e)
                                 (removed evs ++ alive_items e'))
  | None, None => e' = e
  | _, _ => False
  end.

Definition astep_ok' (cls : bool) (e : aenv) (x : aenv * aoutcome) (y : senv * soutcome) : Prop :=
  awf_env cls (fst x) /\ fst y = abs_aenv (fst x) /\ astep_rel cls e (fst x) (snd x) (snd y).

Definition astep_ok (cls : bool) (e : aenv) (op : list Z) : Prop :=
  astep_ok' cls e (arr_step afixed cls e op) (spec_step cls (abs_aenv e) op).

Lemma astep_none cls e : awf_env cls e -> astep_ok' cls e (e, None) (abs_aenv e, None).
Proof. intros W. split; [exact W|]. split; reflexivity. Qed.

Lemma astep_same cls e ret ret' evs :
  awf_env cls e -> ret = ret' -> evsum evs [] [] [] ->
  astep_ok' cls e (e, Some (ret, evs)) (abs_aenv e, Some (ret', [], [])).
Proof.
  intros W -> [E1 E2 E3 E4 E5]. split; [exact W|]. split; [reflexivity|].
  cbn [fst snd astep_rel]. repeat (split; [assumption || reflexivity|]).
  intros _. rewrite E2, E3, E5. apply Permutation_refl.
Qed.

Lemma astep_set_gen cls e b o' ret evs ret' ct rem asg :
  awf_env cls e -> 0 <= b < Zlen e -> oawf cls o' -> ret = ret' -> evsum evs ct rem asg ->
  (cls = true -> Permutation (ct ++ asg ++ oitems (aenv_get e b)) (rem ++ oitems o')) ->
  astep_ok' cls e (aenv_set e b o', Some (ret, evs))
                  (senv_set (abs_aenv e) b (option_map abs_arr o'), Some (ret', ct, rem)).
Proof.
  intros W Hb Wo -> [E1 E2 E3 E4 E5] P.
  split; [apply awf_env_set; assumption|]. split; [cbn [fst]; rewrite abs_aenv_set; reflexivity|].
  cbn [fst snd astep_rel]. repeat (split; [assumption || reflexivity|]).
  intros Hc. specialize (P Hc). rewrite E2, E3, E5.
  pose proof (alive_items_set e b o' Hb) as P2. perm_solve.
Qed.

Lemma astep_set1 cls e b o a' sa ret evs ret' ct rem asg :
  awf_env cls e -> 0 <= b < Zlen e -> aenv_get e b = o -> awf cls a' -> sa = abs_arr a' -> ret = ret' ->
  evsum evs ct rem asg ->
  (cls = true -> Permutation (ct ++ asg ++ oitems o) (rem ++ slot_vals (adata a'))) ->
  astep_ok' cls e (aenv_set e b (Some a'), Some (ret, evs))
                  (senv_set (abs_aenv e) b (Some sa), Some (ret', ct, rem)).
Proof.
  intros W Hb <- Wa -> Hret EF P.
  apply (astep_set_gen cls e b (Some a') ret evs ret' ct rem asg); assumption.
Qed.

Lemma astep_unset cls e b o ret evs ret' ct rem asg :
  awf_env cls e -> 0 <= b < Zlen e -> aenv_get e b = o -> ret = ret' ->
  evsum evs ct rem asg ->
  (cls = true -> Permutation (ct ++ asg ++ oitems o) rem) ->
  astep_ok' cls e (aenv_set e b None, Some (ret, evs))
                  (senv_set (abs_aenv e) b None, Some (ret', ct, rem)).
Proof.
  intros W Hb <- Hret EF P.
  apply (astep_set_gen cls e b None ret evs ret' ct rem asg); try assumption. exact I.
  cbn [oitems]. rewrite app_nil_r. exact P.
Qed.

(* two successive updates without events (move construction, swap) *)
Lemma astep_set2 cls e b c x y ret :
  awf_env cls e -> 0 <= b < Zlen e -> 0 <= c < Zlen e -> awf cls x -> awf cls y ->
  Permutation (oitems (aenv_get e b) ++ oitems (aenv_get (aenv_set e b (Some x)) c))
              (slot_vals (adata x) ++ slot_vals (adata y)) ->
  astep_ok' cls e (aenv_set (aenv_set e b (Some x)) c (Some y), Some (ret, []))
                  (senv_set (senv_set (abs_aenv e) b (Some (abs_arr x))) c (Some (abs_arr y)),
                   Some (ret, [], [])).
Proof.
  intros W Hb Hc Wx Wy P.
  assert (W1 : awf_env cls (aenv_set e b (Some x))) by (apply awf_env_set; assumption).
  split; [apply awf_env_set; assumption|].
  split; [cbn [fst]; rewrite !abs_aenv_set; reflexivity|].
  cbn [fst snd astep_rel]. repeat (split; [reflexivity|]).
  intros _. cbn [constructed removed assigned flat_map app].
  pose proof (alive_items_set e b (Some x) Hb) as P1.
  pose proof (alive_items_set (aenv_set e b (Some x)) c (Some y)
                ltac:(rewrite Zlen_aenv_set; exact Hc)) as P2.
  cbn [oitems] in P1, P2. perm_solve.
Qed.
