(* SubjectLemmasC.v — the memory invariant Rmem is preserved by the primitive transitions. *)
From Coq Require Import List ZArith Bool Lia Arith Permutation.
From Tulz Require Import Common SubjectModel SubjectSpec SubjectLemmasA SubjectLemmasB.
Import ListNotations.
Local Open Scope Z_scope.

Definition alive_at (hp : list obs) (o : nat) (b : bool) : Prop :=
  exists ob, nth_error hp o = Some ob /\ o_alive ob = b.

Lemma Rmem_equiv w w' :
  Rmem w ->
  (forall o b, alive_at (heap w') o b <-> alive_at (heap w) o b) ->
  frees_of (log w') = frees_of (log w) ->
  length (subjects w') = length (subjects w) ->
  (forall k s s', nth_error (subjects w) k = Some s -> nth_error (subjects w') k = Some s' ->
       (forall o, In o (own s') <-> In o (own s)) /\ NoDup (own s') /\
       ((0 < depth s)%nat -> (0 < depth s')%nat)) ->
  (forall o, In o (stack w') -> In o (stack w) \/
        exists k s, nth_error (subjects w) k = Some s /\ In o (own s) /\ (0 < depth s)%nat) ->
  Rmem w'.
Proof.
  intros M Hh Hl Hn Hs Hst.
  assert (Hback : forall k s', nth_error (subjects w') k = Some s' -> exists s, nth_error (subjects w) k = Some s).
  { intros k s' H. eapply nth_error_same_length; [exact Hn | exact H]. }
  assert (Hfwd : forall k s, nth_error (subjects w) k = Some s -> exists s', nth_error (subjects w') k = Some s').
  { intros k s H. eapply nth_error_same_length; [exact (eq_sym Hn) | exact H]. }
  constructor.
  - intros k1 k2 s1' s2' o H1 H2 I1 I2.
    destruct (Hback _ _ H1) as [s1 E1]. destruct (Hback _ _ H2) as [s2 E2].
    apply (r_own_inj _ M k1 k2 s1 s2 o); auto.
    + apply (Hs _ _ _ E1 H1). auto.
    + apply (Hs _ _ _ E2 H2). auto.
  - intros k s' H1. destruct (Hback _ _ H1) as [s E1]. apply (Hs _ _ _ E1 H1).
  - intros o (k & s' & H1 & I1). destruct (Hback _ _ H1) as [s E1].
    apply Hh. apply (r_owned_alive _ M). exists k, s. split; auto. apply (Hs _ _ _ E1 H1). auto.
  - intros o ob H1 H2.
    assert (A : alive_at (heap w') o true) by (exists ob; auto). apply Hh in A. destruct A as (ob0 & A1 & A2).
    destruct (r_alive_owned _ M _ _ A1 A2) as (k & s & E1 & I1). destruct (Hfwd _ _ E1) as [s' H1'].
    exists k, s'. split; auto. apply (Hs _ _ _ E1 H1'). auto.
  - rewrite Hl. apply M.
  - intros o. rewrite Hl. rewrite (r_free _ M). symmetry. apply Hh.
  - intros o Ho.
    assert (X : exists k s, nth_error (subjects w) k = Some s /\ In o (own s) /\ (0 < depth s)%nat).
    { destruct (Hst _ Ho) as [Ho'|X]; auto. apply (r_stack _ M); auto. }
    destruct X as (k & s & E1 & I1 & D1). destruct (Hfwd _ _ E1) as [s' H1'].
    exists k, s'. repeat split; auto; apply (Hs _ _ _ E1 H1'); auto.
Qed.

(* one Subject replaced by one owning the same set of objects *)
Lemma Rmem_equiv_set w w' k s s' :
  Rmem w -> nth_error (subjects w) k = Some s ->
  subjects w' = list_set (subjects w) k s' ->
  (forall o b, alive_at (heap w') o b <-> alive_at (heap w) o b) ->
  frees_of (log w') = frees_of (log w) ->
  (forall o, In o (own s') <-> In o (own s)) -> NoDup (own s') ->
  ((0 < depth s)%nat -> (0 < depth s')%nat) ->
  (forall o, In o (stack w') -> In o (stack w) \/
        exists k s, nth_error (subjects w) k = Some s /\ In o (own s) /\ (0 < depth s)%nat) ->
  Rmem w'.
Proof.
  intros M Hk Hs Hh Hl Ho Hn Hd Hst. eapply Rmem_equiv; eauto.
  - rewrite Hs. apply length_list_set.
  - intros j sj sj' H1 H2. rewrite Hs in H2. apply nth_error_list_set_inv in H2.
    destruct H2 as [(-> & -> & _)|(Hne & H2)].
    + rewrite Hk in H1. inversion H1; subst. auto.
    + rewrite H1 in H2. inversion H2; subst. repeat split; auto. apply (r_own_nodup _ M _ _ H1).
Qed.

Lemma alive_at_list_set hp o ob ob' x b :
  nth_error hp o = Some ob -> o_alive ob' = o_alive ob ->
  (alive_at (list_set hp o ob') x b <-> alive_at hp x b).
Proof.
  intros Ho Ha. unfold alive_at. rewrite nth_error_list_set.
  destruct (Nat.eqb x o) eqn:E.
  - apply Nat.eqb_eq in E. subst x. rewrite Ho. split.
    + intros (y & H1 & H2). inversion H1; subst. exists ob. split; auto; congruence.
    + intros (y & H1 & H2). inversion H1; subst. exists ob'. split; auto.
  - destruct (nth_error hp x); split; intros (y & H1 & H2); try discriminate; eauto.
Qed.

Lemma Rmem_flags w o ob ob' :
  Rmem w -> nth_error (heap w) o = Some ob -> o_alive ob' = o_alive ob ->
  Rmem (set_heap w (list_set (heap w) o ob')).
Proof.
  intros M Ho Ha. eapply Rmem_equiv; eauto; cbn.
  - intros x b. eapply alive_at_list_set; eauto.
  - intros k s s' H1 H2. rewrite H1 in H2. inversion H2; subst. repeat split; auto.
    apply (r_own_nodup _ M _ _ H1).
Qed.

(* ---------- freeing ---------- *)
Definition dead (ob : obs) : obs := mkObs false (o_valid ob) (o_muted ob) (o_script ob).

Lemma frees_of_map_EFree l : frees_of (map EFree l) = l.
Proof. induction l; simpl; auto. f_equal. auto. Qed.
Lemma calls_of_map_EFree l : calls_of (map EFree l) = [].
Proof. induction l; simpl; auto. Qed.

Lemma free_all_spec os : forall w,
  NoDup os ->
  (forall o, In o os -> alive_at (heap w) o true) ->
  (forall o, In o os -> ~ In o (stack w)) ->
  exists w', free_all w os = Ok w' /\ subjects w' = subjects w /\ handles w' = handles w /\
    stack w' = stack w /\ log w' = map EFree (rev os) ++ log w /\
    length (heap w') = length (heap w) /\
    (forall o, nth_error (heap w') o = match nth_error (heap w) o with
                                       | Some ob => Some (if memN o os then dead ob else ob)
                                       | None => None end).
Proof.
  induction os as [|a os IH]; intros w Hn Ha Hs.
  - exists w. simpl. repeat split; auto. intros o. destruct (nth_error (heap w) o); auto.
  - inversion Hn as [|? ? Hna Hn']; subst.
    destruct (Ha a (or_introl eq_refl)) as (ob & Eob & Aob).
    assert (Hst : memN a (stack w) = false) by (apply memN_false; apply Hs; left; auto).
    set (w1 := add_log (set_heap w (list_set (heap w) a (mkObs false (o_valid ob) (o_muted ob) (o_script ob)))) (EFree a)).
    assert (Ef : free_obs w a = Ok w1).
    { unfold free_obs. rewrite Eob, Aob, Hst. reflexivity. }
    destruct (IH w1) as (w' & F1 & F2 & F3 & F4 & F5 & F6 & F7); auto.
    + intros o Ho. destruct (Ha o (or_intror Ho)) as (y & Ey & Ay).
      exists y. split; auto. cbn. rewrite nth_error_list_set_neq; auto. intros ->. contradiction.
    + intros o Ho. cbn. apply Hs. right; auto.
    + exists w'. cbn [free_all]. rewrite Ef. cbn [bind]. split; auto.
      split; [rewrite F2; reflexivity|]. split; [rewrite F3; reflexivity|].
      split; [rewrite F4; reflexivity|]. split; [|split].
      * rewrite F5. cbn. rewrite map_app, <- app_assoc. reflexivity.
      * rewrite F6. cbn. apply length_list_set.
      * intros o. rewrite F7. cbn [w1 heap add_log set_heap]. rewrite nth_error_list_set.
        destruct (nth_error (heap w) o) as [y|] eqn:Ey; auto.
        cbn [memN existsb]. fold (memN o os).
        destruct (Nat.eqb o a) eqn:Eoa; cbn [orb].
        -- apply Nat.eqb_eq in Eoa. subst o. rewrite Eob in Ey. inversion Ey; subst.
           destruct (memN a os); reflexivity.
        -- reflexivity.
Qed.

Lemma recof_of_nth_error hp hp' (os : list nat) :
  (forall o, nth_error hp' o = match nth_error hp o with
                               | Some ob => Some (if memN o os then dead ob else ob)
                               | None => None end) ->
  forall p, recof hp' p = recof hp p.
Proof.
  intros H [sid o]. unfold recof. cbn [fst snd]. specialize (H o).
  destruct (nth_error hp o) as [ob|] eqn:E.
  - rewrite (nth_error_nth _ _ dob H), (nth_error_nth _ _ dob E). destruct (memN o os); reflexivity.
  - apply nth_error_None in H. apply nth_error_None in E.
    rewrite (nth_overflow _ _ H), (nth_overflow _ _ E). reflexivity.
Qed.

Lemma Rmem_free w k s s' os :
  Rmem w -> nth_error (subjects w) k = Some s ->
  (forall x, In x (own s) <-> In x (own s') \/ In x os) ->
  NoDup (own s') -> NoDup os -> (forall x, In x (own s') -> ~ In x os) ->
  (forall x, In x (stack w) -> ~ In x (own s)) ->
  exists w', free_all (set_subj w k s') os = Ok w' /\ Rmem w' /\
    subjects w' = list_set (subjects w) k s' /\ handles w' = handles w /\ stack w' = stack w /\
    log w' = map EFree (rev os) ++ log w /\ length (heap w') = length (heap w) /\
    (forall p, recof (heap w') p = recof (heap w) p).
Proof.
  intros M Hk Hsplit Hn' Hnos Hdisj Hst.
  assert (Hal : forall o, In o os -> alive_at (heap w) o true).
  { intros o Ho. apply (r_owned_alive _ M). exists k, s. split; auto. apply Hsplit. auto. }
  destruct (free_all_spec os (set_subj w k s')) as (w' & F1 & F2 & F3 & F4 & F5 & F6 & F7); auto.
  { intros o Ho. cbn. intros Hi. apply (Hst _ Hi). apply Hsplit. auto. }
  cbn in F2, F3, F4, F5, F6, F7.
  exists w'. split; auto. split; [|repeat split; auto; eapply recof_of_nth_error; eauto].
  assert (Hsub : forall j sj', nth_error (subjects w') j = Some sj' ->
            exists sj, nth_error (subjects w) j = Some sj /\ (forall x, In x (own sj') -> In x (own sj)) /\
                       ((j = k /\ sj' = s' /\ sj = s) \/ (j <> k /\ sj' = sj))).
  { intros j sj' H. rewrite F2 in H. apply nth_error_list_set_inv in H.
    destruct H as [(-> & -> & _)|(Hne & H)].
    - exists s. split; auto. split; auto. intros x Hx. apply Hsplit. auto.
    - exists sj'. split; auto. }
  assert (Hnotos : forall j sj' x, nth_error (subjects w') j = Some sj' -> In x (own sj') -> ~ In x os).
  { intros j sj' x H Hx. destruct (Hsub _ _ H) as (sj & E & Hin & [(-> & -> & ->)|(Hne & ->)]).
    - auto.
    - intros Hos. apply Hne. apply (r_own_inj _ M j k sj s x); auto. apply Hsplit. auto. }
  constructor.
  - intros k1 k2 s1 s2 o H1 H2 I1 I2.
    destruct (Hsub _ _ H1) as (t1 & E1 & J1 & _). destruct (Hsub _ _ H2) as (t2 & E2 & J2 & _).
    apply (r_own_inj _ M k1 k2 t1 t2 o); auto.
  - intros j sj' H. destruct (Hsub _ _ H) as (sj & E & Hin & [(-> & -> & ->)|(Hne & ->)]); auto.
    apply (r_own_nodup _ M _ _ E).
  - intros x (j & sj' & H & Hx). destruct (Hsub _ _ H) as (sj & E & Hin & _).
    destruct (r_owned_alive _ M x) as (ob & Eob & Aob). { exists j, sj. auto. }
    exists ob. rewrite F7, Eob. assert (Hm : memN x os = false) by (apply memN_false; eapply Hnotos; eauto).
    rewrite Hm. auto.
  - intros x obx Hx Ax. rewrite F7 in Hx. destruct (nth_error (heap w) x) as [ob|] eqn:Eob; [|discriminate].
    destruct (memN x os) eqn:Hm; inversion Hx; subst obx. { discriminate. }
    apply memN_false in Hm.
    destruct (r_alive_owned _ M _ _ Eob Ax) as (j & sj & E & Hin).
    destruct (Nat.eq_dec j k) as [->|Hne].
    + rewrite Hk in E. inversion E; subst sj. exists k, s'. split.
      * rewrite F2. eapply nth_error_list_set_eq; eauto.
      * apply Hsplit in Hin. tauto.
    + exists j, sj. split; auto. rewrite F2. rewrite nth_error_list_set_neq; auto.
  - rewrite F5, frees_of_app, frees_of_map_EFree. apply NoDup_app_iff. split; [|split].
    + apply NoDup_rev. auto.
    + apply M.
    + intros x Hx Hf. apply in_rev in Hx. destruct (Hal _ Hx) as (ob & Eob & Aob).
      apply (r_free _ M) in Hf. destruct Hf as (ob' & Eob' & Aob'). congruence.
  - intros x. rewrite F5, frees_of_app, frees_of_map_EFree, in_app_iff, <- in_rev. rewrite F7. split.
    + intros [Hx|Hx].
      * destruct (Hal _ Hx) as (ob & Eob & Aob). rewrite Eob. apply memN_In in Hx. rewrite Hx. eexists; split; eauto.
      * apply (r_free _ M) in Hx. destruct Hx as (ob & Eob & Aob). rewrite Eob.
        destruct (memN x os); eexists; split; eauto.
    + intros (obx & Hx & Ax). destruct (nth_error (heap w) x) as [ob|] eqn:Eob; [|discriminate].
      destruct (memN x os) eqn:Hm.
      * left. apply memN_In. auto.
      * right. inversion Hx; subst obx. apply (r_free _ M). eauto.
  - intros x Hx. rewrite F4 in Hx. destruct (r_stack _ M _ Hx) as (j & sj & E & Hin & Hd).
    assert (Hne : j <> k). { intros ->. rewrite Hk in E. inversion E; subst. eapply Hst; eauto. }
    exists j, sj. split; auto. rewrite F2, nth_error_list_set_neq; auto.
Qed.

(* ---------- subscribing: a fresh object ---------- *)
Lemma Rmem_sub w k s scr :
  Rmem w -> nth_error (subjects w) k = Some s ->
  Rmem (add_handle (set_subj (set_heap w (heap w ++ [mkObs true true false scr])) k
          (mkSubj ((counter s, length (heap w)) :: observers s) (counter s :: active s) (counter s + 1)
                  (depth s) (graveyard s)))
          (mkH (Some (counter s)) (Some k) (Some (length (heap w))))).
Proof.
  intros M Hk.
  set (s' := mkSubj _ _ _ _ _).
  assert (Hown : forall x, In x (own s') <-> x = length (heap w) \/ In x (own s)).
  { intros x. unfold own, s'. cbn. intuition. }
  assert (Hlt : forall x, owned (subjects w) x -> (x < length (heap w))%nat).
  { intros x Hx. destruct (r_owned_alive _ M _ Hx) as (ob & E & _). eapply nth_error_lt; eauto. }
  assert (Hsub : forall j sj', nth_error (list_set (subjects w) k s') j = Some sj' ->
            exists sj, nth_error (subjects w) j = Some sj /\
                       ((j = k /\ sj' = s' /\ sj = s) \/ (j <> k /\ sj' = sj))).
  { intros j sj' H. apply nth_error_list_set_inv in H. destruct H as [(-> & -> & _)|(Hne & H)].
    - exists s. auto.
    - exists sj'. auto. }
  assert (Hfwd : forall j sj x, nth_error (subjects w) j = Some sj -> In x (own sj) ->
            exists sj', nth_error (list_set (subjects w) k s') j = Some sj' /\ In x (own sj') /\ depth sj' = depth sj).
  { intros j sj x E Hx. destruct (Nat.eq_dec j k) as [->|Hne].
    - exists s'. rewrite Hk in E. inversion E; subst sj. split; [eapply nth_error_list_set_eq; eauto|].
      split; auto. apply Hown. auto.
    - exists sj. rewrite nth_error_list_set_neq; auto. }
  constructor; cbn [subjects heap stack log add_handle set_subj set_heap].
  - intros k1 k2 s1 s2 o H1 H2 I1 I2.
    destruct (Hsub _ _ H1) as (t1 & E1 & C1). destruct (Hsub _ _ H2) as (t2 & E2 & C2).
    destruct C1 as [(-> & -> & ->)|(N1 & ->)], C2 as [(-> & -> & ->)|(N2 & ->)]; auto.
    + apply Hown in I1. destruct I1 as [->|I1].
      * exfalso. assert ((length (heap w) < length (heap w))%nat); [|lia]. apply Hlt. exists k2, t2. auto.
      * apply (r_own_inj _ M k k2 s t2 o); auto.
    + apply Hown in I2. destruct I2 as [->|I2].
      * exfalso. assert ((length (heap w) < length (heap w))%nat); [|lia]. apply Hlt. exists k1, t1. auto.
      * apply (r_own_inj _ M k1 k t1 s o); auto.
    + apply (r_own_inj _ M k1 k2 t1 t2 o); auto.
  - intros j sj' H. destruct (Hsub _ _ H) as (sj & E & [(-> & -> & ->)|(Hne & ->)]).
    + unfold own, s'. cbn. constructor.
      * intros Hi. assert ((length (heap w) < length (heap w))%nat); [|lia]. apply Hlt. exists k, s. auto.
      * apply (r_own_nodup _ M _ _ E).
    + apply (r_own_nodup _ M _ _ E).
  - intros x (j & sj' & H & Hx). destruct (Hsub _ _ H) as (sj & E & C).
    assert (Hc : x = length (heap w) \/ owned (subjects w) x).
    { destruct C as [(-> & -> & ->)|(Hne & ->)].
      - apply Hown in Hx. destruct Hx; auto. right. exists k, s. auto.
      - right. exists j, sj. auto. }
    destruct Hc as [->|Hc].
    + eexists. rewrite nth_error_app2, Nat.sub_diag by lia. cbn. split; eauto.
    + destruct (r_owned_alive _ M _ Hc) as (ob & Eob & Aob). exists ob.
      rewrite nth_error_app1; auto.
  - intros x ob Hx Ax. destruct (lt_dec x (length (heap w))) as [Hl|Hl].
    + rewrite nth_error_app1 in Hx by auto. destruct (r_alive_owned _ M _ _ Hx Ax) as (j & sj & E & Hin).
      destruct (Hfwd _ _ _ E Hin) as (sj' & H1 & H2 & _). exists j, sj'. auto.
    + assert (x = length (heap w)).
      { apply nth_error_lt in Hx. rewrite app_length in Hx. cbn in Hx. lia. }
      subst x. exists k, s'. split; [eapply nth_error_list_set_eq; eauto|]. apply Hown. auto.
  - apply M.
  - intros x. rewrite (r_free _ M). split; intros (ob & Eob & Aob).
    + exists ob. split; auto. rewrite nth_error_app1; auto. eapply nth_error_lt; eauto.
    + destruct (lt_dec x (length (heap w))) as [Hl|Hl].
      * rewrite nth_error_app1 in Eob by auto. eauto.
      * assert (x = length (heap w)).
        { apply nth_error_lt in Eob. rewrite app_length in Eob. cbn in Eob. lia. }
        subst x. rewrite nth_error_app2, Nat.sub_diag in Eob by lia. cbn in Eob. inversion Eob; subst. discriminate.
  - intros x Hx. destruct (r_stack _ M _ Hx) as (j & sj & E & Hin & Hd).
    destruct (Hfwd _ _ _ E Hin) as (sj' & H1 & H2 & H3). exists j, sj'. repeat split; auto. lia.
Qed.
