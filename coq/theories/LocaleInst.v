(* LocaleInst.v — the LocaleInfo model instantiated with the tables regenerated from the source. *)
From Coq Require Import List ZArith.
From Tulz Require Import Common LocaleModel.
From TulzGen Require Import LocaleTables.
Definition locale_run (case : list (list Z)) : list (list Z) := locale_run_with lang_table country_table case.
Definition locale_spec_run (case : list (list Z)) : list (list Z) :=
  match case with
  | _ :: ls => nil :: map (fun s => render_l (LOk (spec_get lang_table country_table s))) ls
  | _ => nil
  end.
