(* SubjectLemmasB.v — consequences of the simulation relation: lookups, handles. *)
From Coq Require Import List ZArith Bool Lia Arith Permutation.
From Tulz Require Import Common SubjectModel SubjectSpec SubjectLemmasA.
Import ListNotations.
Local Open Scope Z_scope.

Lemma nth_error_list_set_inv {A} (l : list A) k x j y :
  nth_error (list_set l k x) j = Some y ->
  (j = k /\ y = x /\ exists z, nth_error l k = Some z) \/ (j <> k /\ nth_error l j = Some y).
Proof.
  rewrite nth_error_list_set. destruct (nth_error l j) eqn:E; [|discriminate].
  destruct (Nat.eqb j k) eqn:Ek; intros H; inversion H; subst.
  - apply Nat.eqb_eq in Ek. subst. left. eauto.
  - apply Nat.eqb_neq in Ek. right. auto.
Qed.

(* ---------- find ---------- *)
Lemma find_nodup_in (l : list arec) sid r :
  NoDup (map a_sid l) -> In r l -> a_sid r = sid -> find (fun r => a_sid r =? sid) l = Some r.
Proof.
  induction l as [|x l IH]; simpl; intros Hn Hi Hs. contradiction.
  inversion Hn; subst. destruct Hi as [->|Hi].
  - rewrite Z.eqb_refl. reflexivity.
  - destruct (a_sid x =? a_sid r) eqn:E.
    + apply Z.eqb_eq in E. exfalso. apply H1. rewrite E. apply in_map. auto.
    + auto.
Qed.

Lemma find_none_notin (l : list arec) sid :
  ~ In sid (map a_sid l) -> find (fun r => a_sid r =? sid) l = None.
Proof.
  induction l as [|x l IH]; simpl; intros H; auto.
  destruct (a_sid x =? sid) eqn:E.
  - apply Z.eqb_eq in E. exfalso. apply H. auto.
  - apply IH. intros Hi. apply H. auto.
Qed.

Lemma map_sid_recof hp l : map a_sid (map (recof hp) l) = map fst l.
Proof. rewrite map_map. apply map_ext. intros [x y]. reflexivity. Qed.

Lemma Rs_sids hp s a : Rs hp s a -> map a_sid (subs a) = rev (map fst (observers s)).
Proof. intros H. rewrite (rs_subs _ _ _ H), map_rev, map_sid_recof. reflexivity. Qed.

Lemma Rs_afind_in hp s a sid o :
  Rs hp s a -> In (sid, o) (observers s) -> afind a sid = Some (recof hp (sid, o)).
Proof.
  intros H Hi. unfold afind. apply find_nodup_in.
  - rewrite (Rs_sids _ _ _ H). apply NoDup_rev. apply (rs_nodup _ _ _ H).
  - rewrite (rs_subs _ _ _ H). rewrite <- in_rev. apply in_map. auto.
  - reflexivity.
Qed.

Lemma Rs_afind_none hp s a sid :
  Rs hp s a -> ~ In sid (map fst (observers s)) -> afind a sid = None.
Proof.
  intros H Hn. unfold afind. apply find_none_notin.
  rewrite (Rs_sids _ _ _ H). rewrite <- in_rev. auto.
Qed.

Lemma Rs_afind_cases hp s a sid :
  Rs hp s a ->
  (memZ sid (active s) = true /\ exists o, In (sid, o) (observers s) /\ afind a sid = Some (recof hp (sid, o))) \/
  (memZ sid (active s) = false /\ ~ In sid (map fst (observers s)) /\ afind a sid = None).
Proof.
  intros H. destruct (memZ sid (active s)) eqn:E.
  - left. split; auto. apply memZ_In in E. rewrite (rs_active _ _ _ H) in E.
    apply in_map_fst in E. destruct E as [o Ho]. exists o. split; auto. eapply Rs_afind_in; eauto.
  - right. split; auto. apply memZ_false in E. rewrite (rs_active _ _ _ H) in E. split; auto.
    eapply Rs_afind_none; eauto.
Qed.

Lemma Rs_fst_inj hp s a sid o o' :
  Rs hp s a -> In (sid, o) (observers s) -> In (sid, o') (observers s) -> o = o'.
Proof.
  intros H H1 H2.
  assert (E : (sid, o) = (sid, o')) by (eapply (NoDup_map_inj fst); eauto; apply (rs_nodup _ _ _ H)).
  congruence.
Qed.

Lemma Rs_hok hp s a sid o : Rs hp s a -> In (sid, o) (observers s) -> hok s sid o.
Proof.
  intros H Hi. split.
  - intros o' Hi'. eapply Rs_fst_inj; eauto.
  - left. apply (rs_lt _ _ _ H). apply in_map_fst. eauto.
Qed.

Lemma Rs_heap_ext hp hp' s a :
  Rs hp s a -> (forall p, In p (observers s) -> recof hp' p = recof hp p) -> Rs hp' s a.
Proof.
  intros [a1 a2 a3 a4 a5 a6 a7] He. constructor; auto.
  rewrite a5. f_equal. apply map_ext_in. intros p Hp. symmetry. auto.
Qed.

(* ---------- subjects on both sides ---------- *)
Lemma Rabs_subj_ex w aw k s :
  Rabs w aw -> nth_error (subjects w) k = Some s ->
  exists a, nth_error (asubjects aw) k = Some a /\ Rs (heap w) s a.
Proof.
  intros H Hs. destruct (nth_error_same_length _ (asubjects aw) _ _ (r_len _ _ H) Hs) as [a Ha].
  exists a. split; auto. eapply r_subj; eauto.
Qed.

Lemma Rabs_subj_none w aw k :
  Rabs w aw -> nth_error (subjects w) k = None -> nth_error (asubjects aw) k = None.
Proof.
  intros H Hs. apply nth_error_None. rewrite <- (r_len _ _ H). apply nth_error_None. auto.
Qed.

Lemma get_subj_aget w aw k :
  Rabs w aw ->
  (get_subj (subjects w) k = None /\ aget aw k = None) \/
  (exists s a, get_subj (subjects w) k = Some s /\ aget aw k = Some a /\
               nth_error (subjects w) k = Some s /\ nth_error (asubjects aw) k = Some a /\
               0 <= counter s /\ Rs (heap w) s a).
Proof.
  intros H. unfold get_subj, aget. destruct (nth_error (subjects w) k) as [s|] eqn:Es.
  - destruct (Rabs_subj_ex _ _ _ _ H Es) as (a & Ha & HR). rewrite Ha, (rs_counter _ _ _ HR).
    destruct (counter s <? 0) eqn:Ec.
    + left. auto.
    + right. exists s, a. apply Z.ltb_ge in Ec. repeat split; auto; apply HR.
  - rewrite (Rabs_subj_none _ _ _ H Es). left. auto.
Qed.

(* ---------- handles ---------- *)
Lemma Rabs_handle_none w aw h :
  Rabs w aw -> nth_error (handles w) h = None -> nth_error (ahandles aw) h = None.
Proof.
  intros H Hs. apply nth_error_None. rewrite <- (r_hlen _ _ H). apply nth_error_None. auto.
Qed.

Inductive hcase (w : world) (aw : aworld) (h : nat) (hd : handle) : Prop :=
| hc_cleared : hd = handle0 -> nth_error (ahandles aw) h = Some None -> hcase w aw h hd
| hc_stale k sid o s a :
    hd = mkH (Some sid) (Some k) (Some o) -> nth_error (ahandles aw) h = Some (Some (k, sid)) ->
    nth_error (subjects w) k = Some s -> nth_error (asubjects aw) k = Some a -> Rs (heap w) s a ->
    ~ In sid (map fst (observers s)) -> memZ sid (active s) = false -> afind a sid = None ->
    hcase w aw h hd
| hc_valid k sid o s a :
    hd = mkH (Some sid) (Some k) (Some o) -> nth_error (ahandles aw) h = Some (Some (k, sid)) ->
    nth_error (subjects w) k = Some s -> nth_error (asubjects aw) k = Some a -> Rs (heap w) s a ->
    In (sid, o) (observers s) -> memZ sid (active s) = true -> afind a sid = Some (recof (heap w) (sid, o)) ->
    hcase w aw h hd.

Lemma handle_cases w aw h hd :
  Rabs w aw -> nth_error (handles w) h = Some hd -> hcase w aw h hd.
Proof.
  intros H Hh.
  destruct (nth_error_same_length _ (ahandles aw) _ _ (r_hlen _ _ H) Hh) as [ah Hah].
  pose proof (r_hand _ _ H _ _ _ Hh Hah) as Hr. destruct ah as [[k sid]|]; simpl in Hr.
  - destruct Hr as (o & s & Ehd & Hs & Hok).
    destruct (Rabs_subj_ex _ _ _ _ H Hs) as (a & Ha & HR).
    destruct (Rs_afind_cases _ _ _ sid HR) as [(Hm & o' & Hi & Hf)|(Hm & Hn & Hf)].
    + assert (o' = o) by (apply (proj1 Hok); auto). subst o'.
      eapply hc_valid; eauto.
    + eapply hc_stale; eauto.
  - apply hc_cleared; auto.
Qed.
