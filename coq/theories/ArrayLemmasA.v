(* ArrayLemmasA.v — list / slot / event level lemmas used by ArrayProofs.v. *)
From Coq Require Import List ZArith Bool Lia Permutation.
From Tulz Require Import Common RingModel RingInv ArrayModel ArrayInv.
Import ListNotations.
Local Open Scope Z_scope.

(* ---------- permutations by counting ---------- *)

Lemma perm_count (l1 l2 : list Z) :
  (forall x, count_occ Z.eq_dec l1 x = count_occ Z.eq_dec l2 x) -> Permutation l1 l2.
Proof. apply (Permutation_count_occ Z.eq_dec). Qed.

Lemma count_perm (l1 l2 : list Z) :
  Permutation l1 l2 -> forall x, count_occ Z.eq_dec l1 x = count_occ Z.eq_dec l2 x.
Proof. apply (Permutation_count_occ Z.eq_dec). Qed.

(* ---------- plain lists ---------- *)

Lemma Zlen_app {A} (l m : list A) : Zlen (l ++ m) = Zlen l + Zlen m.
Proof. unfold Zlen. rewrite app_length. lia. Qed.

Lemma Zlen_nonneg {A} (l : list A) : 0 <= Zlen l.
Proof. unfold Zlen. lia. Qed.

Lemma list_set_app {A} (pre : list A) x post y :
  list_set (pre ++ x :: post) (length pre) y = pre ++ y :: post.
Proof. induction pre as [|h t IH]; cbn [app length list_set]; [reflexivity | rewrite IH; reflexivity]. Qed.

Lemma map_list_set {A B} (f : A -> B) l n x : map f (list_set l n x) = list_set (map f l) n (f x).
Proof.
  revert n; induction l as [|h t IH]; intros [|n]; cbn [map list_set]; try reflexivity.
  rewrite IH; reflexivity.
Qed.

Lemma list_set_length {A} (l : list A) n x : length (list_set l n x) = length l.
Proof.
  revert n; induction l as [|h t IH]; intros [|n]; cbn [length list_set]; try reflexivity.
  rewrite IH; reflexivity.
Qed.

Lemma Forall_list_set {A} (P : A -> Prop) l n x : Forall P l -> P x -> Forall P (list_set l n x).
Proof.
  intros H Hx. revert n; induction H as [|h t Hh Ht IH]; intros [|n]; cbn [list_set]; auto.
Qed.

Lemma nth_list_set_same {A} (l : list A) n x d : (n < length l)%nat -> nth n (list_set l n x) d = x.
Proof.
  revert n; induction l as [|h t IH]; intros [|n] H; cbn [length] in H; cbn [list_set nth]; try lia.
  - reflexivity.
  - apply IH; lia.
Qed.

Lemma nth_list_set_other {A} (l : list A) n m x d : n <> m -> nth m (list_set l n x) d = nth m l d.
Proof.
  revert n m; induction l as [|h t IH]; intros [|n] [|m] H; cbn [list_set nth]; try reflexivity; try congruence.
  apply IH; congruence.
Qed.

Lemma map_repeat {A B} (f : A -> B) x n : map f (repeat x n) = repeat (f x) n.
Proof. induction n as [|n IH]; cbn [repeat map]; [reflexivity | rewrite IH; reflexivity]. Qed.

Lemma split_at {A} (l : list A) (b : Z) :
  0 <= b < Zlen l -> exists pre x post, l = pre ++ x :: post /\ b = Zlen pre.
Proof.
  intros H. unfold Zlen in H.
  assert (L : (Z.to_nat b < length l)%nat) by lia.
  destruct l as [|d0 l0] eqn:E; [cbn in L; lia|]. rewrite <- E in *.
  destruct (nth_split l d0 L) as (l1 & l2 & E1 & E2).
  exists l1, (nth (Z.to_nat b) l d0), l2. split; [exact E1|]. unfold Zlen. lia.
Qed.

(* ---------- slots ---------- *)

Definition slotZ := slot Z.

Lemma inb_mid (pre : list (slot Z)) s post : inb (pre ++ s :: post) (Zlen pre) = true.
Proof.
  unfold inb, Zlen. rewrite app_length. cbn [length].
  apply andb_true_intro; split; [apply Z.leb_le | apply Z.ltb_lt]; lia.
Qed.

Lemma rd_mid (pre : list (slot Z)) s post : rd (pre ++ s :: post) (Zlen pre) = s.
Proof.
  unfold rd. rewrite inb_mid. unfold Zlen. rewrite Nat2Z.id. apply nth_middle.
Qed.

Lemma wr_mid (pre : list (slot Z)) s post x : wr (pre ++ s :: post) (Zlen pre) x = pre ++ x :: post.
Proof.
  unfold wr. rewrite inb_mid. unfold Zlen. rewrite Nat2Z.id. apply list_set_app.
Qed.

Lemma ub_mid (pre : list (slot Z)) s post : ub (pre ++ s :: post) (Zlen pre) = [].
Proof. unfold ub. rewrite inb_mid. reflexivity. Qed.

Lemma inb_true (d : list (slot Z)) i : 0 <= i < Zlen d -> inb d i = true.
Proof.
  intros H. unfold inb. apply andb_true_intro; split; [apply Z.leb_le | apply Z.ltb_lt]; lia.
Qed.

Lemma rd_in (d : list (slot Z)) i : 0 <= i < Zlen d -> rd d i = nth (Z.to_nat i) d Raw.
Proof. intros H. unfold rd. rewrite inb_true by exact H. reflexivity. Qed.

Lemma wr_in (d : list (slot Z)) i s : 0 <= i < Zlen d -> wr d i s = list_set d (Z.to_nat i) s.
Proof. intros H. unfold wr. rewrite inb_true by exact H. reflexivity. Qed.

Lemma ub_in (d : list (slot Z)) i : 0 <= i < Zlen d -> ub d i = [].
Proof. intros H. unfold ub. rewrite inb_true by exact H. reflexivity. Qed.

(* all-live / no-shell *)

Lemma live_noshell (d : list (slot Z)) : forallb is_live d = true -> Forall (fun s => s <> Shell) d.
Proof.
  induction d as [|s t IH]; intros H; [constructor|].
  cbn [forallb] in H. apply andb_prop in H. destruct H as [H1 H2].
  constructor; [|apply IH; exact H2]. destruct s; cbn in H1; congruence.
Qed.

Lemma alllive_map_live (l : list Z) : forallb is_live (map Live l) = true.
Proof. induction l as [|h t IH]; cbn [map forallb is_live]; [reflexivity | rewrite IH; reflexivity]. Qed.

Lemma noshell_map_live (l : list Z) : Forall (fun s : slot Z => s <> Shell) (map Live l).
Proof. apply live_noshell, alllive_map_live. Qed.

Lemma noshell_repeat_raw n : Forall (fun s : slot Z => s <> Shell) (repeat Raw n).
Proof. induction n as [|n IH]; cbn [repeat]; constructor; [congruence | exact IH]. Qed.

Lemma Forall_firstn' {A} (P : A -> Prop) n l : Forall P l -> Forall P (firstn n l).
Proof.
  intros H; revert n; induction H as [|h t Hh Ht IH]; intros [|n]; cbn [firstn]; auto.
Qed.

Lemma alllive_firstn n (d : list (slot Z)) : forallb is_live d = true -> forallb is_live (firstn n d) = true.
Proof.
  revert n; induction d as [|h t IH]; intros [|n] H; cbn [firstn forallb]; try reflexivity.
  cbn [forallb] in H. apply andb_prop in H. destruct H as [H1 H2]. rewrite H1, IH by exact H2. reflexivity.
Qed.

Lemma alllive_skipn n (d : list (slot Z)) : forallb is_live d = true -> forallb is_live (skipn n d) = true.
Proof.
  revert n; induction d as [|h t IH]; intros [|n] H; cbn [skipn]; try exact H; try reflexivity.
  cbn [forallb] in H. apply andb_prop in H. destruct H as [H1 H2]. apply IH; exact H2.
Qed.

Lemma alllive_nth (d : list (slot Z)) n :
  forallb is_live d = true -> (n < length d)%nat -> exists v, nth n d Raw = Live v.
Proof.
  intros H L. rewrite forallb_forall in H. specialize (H (nth n d Raw) (nth_In d Raw L)).
  destruct (nth n d Raw); cbn in H; try discriminate. eexists; reflexivity.
Qed.

Lemma noshell_nth (d : list (slot Z)) n : Forall (fun s => s <> Shell) d -> nth n d Raw <> Shell.
Proof.
  intros H. destruct (lt_dec n (length d)) as [L|L].
  - rewrite Forall_forall in H. apply H. apply nth_In; exact L.
  - rewrite nth_overflow by lia. congruence.
Qed.

(* slot_vals / somes / abs *)

Lemma slot_vals_app (a b : list (slot Z)) : slot_vals (a ++ b) = slot_vals a ++ slot_vals b.
Proof. unfold slot_vals. apply flat_map_app. Qed.

Lemma slot_vals_map_live (l : list Z) : slot_vals (map Live l) = l.
Proof. induction l as [|h t IH]; [reflexivity|]. cbn [map]. change (slot_vals (Live h :: map Live t)) with (h :: slot_vals (map Live t)). rewrite IH; reflexivity. Qed.

Lemma slot_vals_repeat_raw n : slot_vals (repeat (@Raw Z) n) = [].
Proof. induction n as [|n IH]; [reflexivity|]. cbn [repeat]. change (slot_vals (Raw :: repeat (@Raw Z) n)) with (slot_vals (repeat (@Raw Z) n)). exact IH. Qed.

Lemma slot_vals_split n (d : list (slot Z)) : slot_vals d = slot_vals (firstn n d) ++ slot_vals (skipn n d).
Proof. rewrite <- slot_vals_app, firstn_skipn. reflexivity. Qed.

Lemma somes_abs (d : list (slot Z)) : somes (map abs_slot d) = slot_vals d.
Proof.
  induction d as [|s t IH]; [reflexivity|].
  cbn [map]. unfold somes, slot_vals in *. cbn [flat_map]. rewrite IH. destruct s; reflexivity.
Qed.

Lemma somes_map_some (l : list Z) : somes (map Some l) = l.
Proof. induction l as [|h t IH]; [reflexivity|]. cbn [map]. unfold somes in *. cbn [flat_map app]. rewrite IH. reflexivity. Qed.

Lemma somes_repeat_some v n : somes (repeat (Some v) n) = repeat v n.
Proof. rewrite <- map_repeat. apply somes_map_some. Qed.

Lemma somes_repeat_none n : somes (repeat None n) = [].
Proof. induction n as [|n IH]; [reflexivity|]. cbn [repeat]. unfold somes in *. cbn [flat_map app]. exact IH. Qed.

Lemma abs_map_live (l : list Z) : map abs_slot (map Live l) = map Some l.
Proof. rewrite map_map. apply map_ext. reflexivity. Qed.

Lemma abs_repeat_raw n : map abs_slot (repeat (@Raw Z) n) = repeat None n.
Proof. exact (map_repeat abs_slot Raw n). Qed.

Lemma slot_z_abs (s : slot Z) : s <> Shell -> slot_z s = oz (abs_slot s).
Proof. destruct s; intros H; try reflexivity. congruence. Qed.

Lemma map_slot_z_abs (d : list (slot Z)) :
  Forall (fun s => s <> Shell) d -> map slot_z d = map oz (map abs_slot d).
Proof.
  induction 1 as [|s t Hs Ht IH]; [reflexivity|]. cbn [map]. rewrite IH, slot_z_abs by exact Hs. reflexivity.
Qed.

(* ---------- events ---------- *)

Record evsum (evs : list (event Z)) (ct rem asg : list Z) : Prop := mkEvsum {
  es_ok : forallb ev_ok evs = true;
  es_ct : constructed evs = ct;
  es_rem : removed evs = rem;
  es_mo : moved_out evs = [];
  es_as : assigned evs = asg }.

Lemma evsum_nil : evsum [] [] [] [].
Proof. constructor; reflexivity. Qed.

Lemma evsum_app e1 e2 c1 c2 r1 r2 a1 a2 :
  evsum e1 c1 r1 a1 -> evsum e2 c2 r2 a2 -> evsum (e1 ++ e2) (c1 ++ c2) (r1 ++ r2) (a1 ++ a2).
Proof.
  intros [o1 ct1 rm1 m1 as1] [o2 ct2 rm2 m2 as2]. constructor.
  - rewrite forallb_app, o1, o2; reflexivity.
  - unfold constructed in *. rewrite flat_map_app; congruence.
  - unfold removed in *. rewrite flat_map_app; congruence.
  - unfold moved_out in *. rewrite flat_map_app, m1, m2; reflexivity.
  - unfold assigned in *. rewrite flat_map_app; congruence.
Qed.

Lemma evsum_eq evs c r a c' r' a' :
  evsum evs c r a -> c = c' -> r = r' -> a = a' -> evsum evs c' r' a'.
Proof. intros; subst; assumption. Qed.

Lemma evsum_ctor (l : list Z) : evsum (map ECtor l) l [] [].
Proof.
  induction l as [|h t [o c r m a]]; [apply evsum_nil|]. cbn [map].
  constructor.
  - cbn [forallb ev_ok]. rewrite o; reflexivity.
  - unfold constructed in *. cbn [flat_map app]. rewrite c; reflexivity.
  - unfold removed in *. cbn [flat_map app]. exact r.
  - unfold moved_out in *. cbn [flat_map app]. exact m.
  - unfold assigned in *. cbn [flat_map app]. exact a.
Qed.

Lemma evsum_dtor (d : list (slot Z)) : forallb is_live d = true -> evsum (map (@EDtor Z) d) [] (slot_vals d) [].
Proof.
  induction d as [|s t IH]; intros H; [apply evsum_nil|].
  cbn [forallb] in H. apply andb_prop in H. destruct H as [H1 H2].
  destruct (IH H2) as [o c r m a]. destruct s as [|v|]; cbn in H1; try discriminate.
  cbn [map]. constructor.
  - cbn [forallb ev_ok]. rewrite o; reflexivity.
  - unfold constructed in *. cbn [flat_map app]. exact c.
  - unfold removed, slot_vals in *. cbn [flat_map app]. rewrite r; reflexivity.
  - unfold moved_out in *. cbn [flat_map app]. exact m.
  - unfold assigned in *. cbn [flat_map app]. exact a.
Qed.

Lemma existsb_live_repeat_raw n : existsb is_live (repeat (@Raw Z) n) = false.
Proof. induction n as [|n IH]; [reflexivity|]. cbn [repeat existsb is_live orb]. exact IH. Qed.

Lemma evsum_free_raw n : evsum [EFree (repeat (@Raw Z) n)] [] [] [].
Proof.
  constructor; try reflexivity. cbn [forallb ev_ok]. rewrite existsb_live_repeat_raw. reflexivity.
Qed.

Lemma evsum_free_nil : evsum [EFree (@nil (slot Z))] [] [] [].
Proof. constructor; reflexivity. Qed.

Lemma filter_ub_ctor (l : list Z) :
  filter (fun e : event Z => match e with EUb => true | _ => false end) (map ECtor l) = [].
Proof. induction l as [|h t IH]; [reflexivity|]. cbn [map filter]. exact IH. Qed.

(* ---------- construct_at / dtor_loop ---------- *)

Lemma construct_at_raw (vals : list Z) : forall pre post,
  construct_at (pre ++ repeat Raw (length vals) ++ post) (Zlen pre) vals
  = (pre ++ map Live vals ++ post, map ECtor vals).
Proof.
  induction vals as [|v vs IH]; intros pre post.
  - reflexivity.
  - cbn [construct_at length repeat app map].
    rewrite wr_mid, ub_mid, rd_mid.
    replace (pre ++ Live v :: repeat Raw (length vs) ++ post)
      with ((pre ++ [Live v]) ++ repeat Raw (length vs) ++ post) by (rewrite <- app_assoc; reflexivity).
    replace (Zlen pre + 1) with (Zlen (pre ++ [@Live Z v])) by (rewrite Zlen_app; reflexivity).
    rewrite IH. rewrite <- app_assoc. reflexivity.
Qed.

Lemma construct_at_fresh (vals : list Z) :
  construct_at (repeat Raw (length vals)) 0 vals = (map Live vals, map ECtor vals).
Proof.
  pose proof (construct_at_raw vals [] []) as H. rewrite !app_nil_r in H. exact H.
Qed.

Lemma construct_at_grow (d : list (slot Z)) (vals : list Z) :
  construct_at (d ++ repeat Raw (length vals)) (Zlen d) vals = (d ++ map Live vals, map ECtor vals).
Proof.
  pose proof (construct_at_raw vals d []) as H. rewrite !app_nil_r in H. exact H.
Qed.

Lemma dtor_loop_mid (mid : list (slot Z)) : forall pre post,
  dtor_loop (pre ++ mid ++ post) (fun i => i) (Zlen pre) (length mid)
  = (pre ++ repeat Raw (length mid) ++ post, map (@EDtor Z) mid).
Proof.
  induction mid as [|s t IH]; intros pre post.
  - reflexivity.
  - cbn [dtor_loop length repeat app map].
    rewrite wr_mid, ub_mid, rd_mid.
    replace (pre ++ Raw :: t ++ post) with ((pre ++ [Raw]) ++ t ++ post) by (rewrite <- app_assoc; reflexivity).
    replace (Zlen pre + 1) with (Zlen (pre ++ [@Raw Z])) by (rewrite Zlen_app; reflexivity).
    rewrite IH. rewrite <- app_assoc. reflexivity.
Qed.

(* destroy(begin+n, begin+size) for a class type, shrinking case *)
Lemma destroy_range_shrink (d : list (slot Z)) n sz :
  0 <= n <= sz -> Zlen d = sz ->
  destroy_range true d n sz
  = (firstn (Z.to_nat n) d ++ repeat Raw (length d - Z.to_nat n), map (@EDtor Z) (skipn (Z.to_nat n) d)).
Proof.
  intros Hn Hl. unfold destroy_range. unfold Zlen in Hl.
  set (k := Z.to_nat n).
  assert (E : Z.to_nat (sz - n) = length (skipn k d)) by (rewrite skipn_length; lia).
  rewrite E.
  pose proof (dtor_loop_mid (skipn k d) (firstn k d) []) as L.
  rewrite !app_nil_r, firstn_skipn in L.
  replace (Zlen (firstn k d)) with n in L by (unfold Zlen; rewrite firstn_length; lia).
  rewrite L, skipn_length. reflexivity.
Qed.

Lemma destroy_range_grow (d : list (slot Z)) n sz : sz <= n -> destroy_range true d n sz = (d, []).
Proof.
  intros H. unfold destroy_range. replace (Z.to_nat (sz - n)) with 0%nat by lia. reflexivity.
Qed.

(* acontents under Zlen = size *)
Lemma acontents_wf (a : arr Z) : Zlen (adata a) = asize a -> acontents a = adata a.
Proof.
  intros H. unfold acontents. rewrite <- H. unfold Zlen. rewrite Nat2Z.id.
  apply (nth_ext _ _ Raw Raw).
  - rewrite map_length, seq_length. reflexivity.
  - intros n L. rewrite map_length, seq_length in L.
    rewrite (nth_indep _ Raw (rd (adata a) (Z.of_nat 0))) by (rewrite map_length, seq_length; exact L).
    rewrite (map_nth (fun i => rd (adata a) (Z.of_nat i))).
    rewrite seq_nth by exact L. cbn [plus].
    rewrite rd_in by (unfold Zlen; lia). rewrite Nat2Z.id. reflexivity.
Qed.
