(* Properties_C13.v — SubjectRouter::shrink is invisible to delivery; exists/depth stay consistent.
   Only statements, each closed by [exact <lemma of RouterProofsA / RouterProofsB>], and Print Assumptions. *)
From Coq Require Import List ZArith Bool Lia.
From Tulz Require Import Common RouterModel RouterSpec RouterProofsA RouterProofsB.
Import ListNotations.
Local Open Scope Z_scope.

(* shrink never changes the keys that have subscriptions, nor their subscriptions: any tree, any pattern *)
Theorem C13_shrink_flat : forall n lv, flat (shrink_node n lv) = flat n.
Proof. exact shrink_flat. Qed.
Print Assumptions C13_shrink_flat.

(* hence it never changes which observers any later notify reaches: for every reachable router,
   every pattern and every continuation (subscribe, unsubscribe, invalidate, notify, further
   shrinks, re-subscribe under removed keys), the calls of every later operation are the same
   with and without the shrink *)
Theorem C13_shrink_invisible : forall byval s ops0 r pat ops,
  rrun true byval s router0 ops0 = Some r ->
  rtrace true byval s (mkRt (shrink_node (root r) (full pat)) (rhandles r) (rnext r)) ops
  = rtrace true byval s r ops.
Proof. exact shrink_invisible. Qed.
Print Assumptions C13_shrink_invisible.

(* it never removes a key that still has a subscription at or below it *)
Theorem C13_keeps_live : forall n lv e p,
  In e (flat n) -> firstn (length p) (fst e) = p -> In p (paths (shrink_node n lv)).
Proof. exact shrink_keeps_live. Qed.
Print Assumptions C13_keeps_live.

(* it only removes dead keys lying along the pattern: a removed path has no subscription at or
   below it, and its parent matches a prefix of the pattern (the source erases every empty
   child of every node it visits) *)
Theorem C13_removes_only_dead_along_pattern : forall n l pat p,
  In p (paths n) -> ~ In p (paths (shrink_node n (l :: pat))) ->
  (forall e, In e (flat n) -> firstn (length p) (fst e) <> p) /\
  exists p' k, p = p' ++ [k] /\ (length p' <= length pat)%nat /\
               key_matches (firstn (length p') pat) p' = true /\ matches l (nname n) = true.
Proof. exact shrink_removes_only_dead. Qed.
Print Assumptions C13_removes_only_dead_along_pattern.

(* a wildcard pattern at least as deep as the tree removes every dead branch: every remaining
   node other than the root has a subscription at or below it *)
Theorem C13_full_wildcard_removes_all_dead : forall n l pat p,
  matches l (nname n) = true -> all_wildcard pat -> depth_node n - 1 <= Zlen pat ->
  In p (paths (shrink_node n (l :: pat))) -> p <> [] ->
  exists e, In e (flat (shrink_node n (l :: pat))) /\ firstn (length p) (fst e) = p.
Proof. exact full_wildcard_removes_all_dead. Qed.
Print Assumptions C13_full_wildcard_removes_all_dead.

(* exists(pattern) is true exactly when some stored node path (a stored key or a prefix of one)
   has the pattern's length and matches it level by level *)
Theorem C13_exists_spec : forall n l pat,
  exists_node n (l :: pat) = matches l (nname n) && existsb (key_matches pat) (paths n).
Proof. exact exists_spec. Qed.
Print Assumptions C13_exists_spec.

(* stored paths are prefix-closed *)
Theorem C13_paths_prefix_closed : forall n p q, In (p ++ q) (paths n) -> In p (paths n).
Proof. exact paths_prefix_closed. Qed.
Print Assumptions C13_paths_prefix_closed.

(* depth() is one more than the longest stored path *)
Theorem C13_depth_spec : forall n, depth_node n = 1 + fold_right Z.max 0 (map Zlen (paths n)).
Proof. exact depth_spec. Qed.
Print Assumptions C13_depth_spec.

Example C13_nonvacuous :
  let r := rrun true harness_byval (SVal 0) router0
             [RSubscribe [8; 6]; RSubscribe [8; 7; 9]; RSubscribe [4]; RUnsub 1; RUnsub 2] in
  (* the first shrink also erases the dead sibling [4] of the visited root and the emptied [8; 7] *)
  option_map (fun r => (paths (root r), paths (shrink_node (root r) (full [LStr 8; LRx [6; 7]])),
                        paths (shrink_node (root r) (full [LRx [4; 8]; LRx [6; 7]; LRx [9]])))) r
  = Some ([[]; [4]; [8]; [8; 6]; [8; 7]; [8; 7; 9]],
          [[]; [8]; [8; 6]],
          [[]; [8]; [8; 6]]).
Proof. vm_compute. reflexivity. Qed.
