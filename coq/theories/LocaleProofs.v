(* LocaleProofs.v — the buffer-level model of LocaleInfo::get (LocaleModel.get, guarded variant)
   equals its specification (split + plain table lookups) and never leaves the 64-byte buffer;
   every result of the specification is a table entry or the fallback. *)
From Coq Require Import List ZArith Bool Lia Arith.
From Tulz Require Import Common LocaleModel.
Import ListNotations.
Local Open Scope Z_scope.

(* ---- list_eqb reflects equality ---------------------------------------------------------------- *)
Lemma list_eqb_eq : forall a b, list_eqb a b = true <-> a = b.
Proof.
  induction a as [|x a IH]; destruct b as [|y b]; simpl; split; intro H;
    try reflexivity; try discriminate.
  - apply andb_true_iff in H. destruct H as [H1 H2]. apply Z.eqb_eq in H1. apply IH in H2.
    subst. reflexivity.
  - inversion H; subst. rewrite Z.eqb_refl. simpl. apply IH. reflexivity.
Qed.

Lemma list_eqb_len : forall a b, list_eqb a b = true -> length a = length b.
Proof. intros a b H. apply list_eqb_eq in H. subst. reflexivity. Qed.

(* ---- small list facts -------------------------------------------------------------------------- *)
Lemma skipn_repeat {A} (x : A) : forall n m, skipn n (repeat x m) = repeat x (m - n).
Proof. induction n; destruct m; simpl; auto. Qed.

Lemma In_firstn_in {A} (x : A) n l : In x (firstn n l) -> In x l.
Proof. intro H. rewrite <- (firstn_skipn n l). apply in_or_app. left. exact H. Qed.

Lemma In_skipn_in {A} (x : A) n l : In x (skipn n l) -> In x l.
Proof. intro H. rewrite <- (firstn_skipn n l). apply in_or_app. right. exact H. Qed.

Lemma filter_nil_false {A} (f : A -> bool) l : filter f l = [] -> forall x, In x l -> f x = false.
Proof.
  intros H x Hx. destruct (f x) eqn:E; auto.
  assert (Hi : In x (filter f l)) by (apply filter_In; auto).
  rewrite H in Hi. destruct Hi.
Qed.

Lemma false_filter_nil {A} (f : A -> bool) l : (forall x, In x l -> f x = false) -> filter f l = [].
Proof.
  induction l as [|a l IH]; simpl; intros H; auto.
  rewrite (H a) by auto. apply IH. intros; apply H; auto.
Qed.

Lemma false_find_none {A} (f : A -> bool) l : (forall x, In x l -> f x = false) -> find f l = None.
Proof.
  induction l as [|a l IH]; simpl; intros H; auto.
  rewrite (H a) by auto. apply IH. intros; apply H; auto.
Qed.

Lemma index_of_bound c : forall s i, index_of c s = Some i -> 0 <= i < Zlen s.
Proof.
  induction s as [|x s IH]; simpl; intros i H.
  - discriminate.
  - unfold Zlen in *. cbn [length]. destruct (x =? c).
    + inversion H; subst. lia.
    + destruct (index_of c s) as [j|]; simpl in H; [|discriminate].
      inversion H; subst. specialize (IH j eq_refl). lia.
Qed.

(* ---- table side condition ---------------------------------------------------------------------- *)
Lemma str_ok_elim t : str_ok t = true -> t <> [] /\ (length t < 64)%nat /\ ~ In 0 t.
Proof.
  unfold str_ok. intro H. apply andb_true_iff in H. destruct H as [H H3].
  apply andb_true_iff in H. destruct H as [H1 H2].
  split; [|split].
  - destruct t; simpl in H1; [discriminate H1 | discriminate].
  - apply Z.ltb_lt in H2. unfold Zlen, BUF in H2. lia.
  - intro Hin. rewrite forallb_forall in H3. apply H3 in Hin. simpl in Hin. discriminate.
Qed.

Definition rows_ok (rows : list (list Z * list Z)) :=
  forall r, In r rows -> str_ok (fst r) = true /\ str_ok (snd r) = true.
Definition names_not_codes (langs : list (list Z * list Z)) :=
  forall r r', In r langs -> In r' langs -> list_eqb (fst r) (snd r') = false.

Lemma tables_ok_elim langs countries : tables_ok langs countries = true ->
  rows_ok langs /\ rows_ok countries /\ names_not_codes langs.
Proof.
  unfold tables_ok. intro H. apply andb_true_iff in H. destruct H as [H H3].
  apply andb_true_iff in H. destruct H as [H1 H2].
  rewrite forallb_forall in H1, H2, H3.
  split; [|split].
  - intros r Hr. apply H1 in Hr. apply andb_true_iff in Hr. exact Hr.
  - intros r Hr. apply H2 in Hr. apply andb_true_iff in Hr. exact Hr.
  - intros r r' Hr Hr'. apply H3 in Hr.
    destruct (list_eqb (fst r) (snd r')) eqn:E; auto.
    assert (Hex : existsb (fun r'0 => list_eqb (fst r) (snd r'0)) langs = true).
    { apply existsb_exists. exists r'. split; assumption. }
    rewrite Hex in Hr. discriminate.
Qed.

(* ---- the buffer after memcpy: the part followed by zeros ---------------------------------------- *)
Definition is_buf (p b : list Z) : Prop :=
  exists k, b = p ++ repeat 0 k /\ (length p + k = 64)%nat /\ ~ In 0 p.

Lemma strcmp_buf_spec : forall t p k, ~ In 0 t -> ~ In 0 p -> (length t < length p + k)%nat ->
  strcmp_buf t (p ++ repeat 0 k) = Some (list_eqb t p).
Proof.
  induction t as [|c t IH]; intros p k Ht Hp Hlen.
  - destruct p as [|x p]; simpl in *.
    + destruct k; [lia|]. simpl. reflexivity.
    + f_equal. apply Z.eqb_neq. intro; subst. apply Hp. left. reflexivity.
  - destruct p as [|x p]; simpl in *.
    + destruct k; [lia|]. simpl. replace (c =? 0) with false; [reflexivity|].
      symmetry. apply Z.eqb_neq. intro; subst; apply Ht; left; reflexivity.
    + destruct (c =? x); simpl; [|reflexivity]. apply IH; [tauto | tauto | lia].
Qed.

Lemma strcmp_ok t p b : str_ok t = true -> is_buf p b -> strcmp_buf t b = Some (list_eqb t p).
Proof.
  intros Ht [k [Hb [Hk Hp]]]. apply str_ok_elim in Ht. destruct Ht as [_ [Hl Hz]].
  subst b. apply strcmp_buf_spec; auto. lia.
Qed.

Lemma memcpy_ok src n : ~ In 0 src -> 0 <= n <= 63 -> n <= Zlen src ->
  exists b, memcpy_buf src n = Some b /\ is_buf (firstn (Z.to_nat n) src) b.
Proof.
  intros Hs Hn Hl. unfold memcpy_buf, BUF.
  replace (0 <=? n) with true by (symmetry; apply Z.leb_le; lia).
  replace (n <=? 64) with true by (symmetry; apply Z.leb_le; lia).
  cbv beta iota delta [andb].
  eexists. split; [reflexivity|].
  exists (Z.to_nat 64 - Z.to_nat n)%nat. split; [|split].
  - unfold zero_buf, BUF. rewrite skipn_repeat. reflexivity.
  - rewrite firstn_length. unfold Zlen in Hl. lia.
  - intro Hin. apply Hs. eapply In_firstn_in; eauto.
Qed.

(* ---- the language scan ------------------------------------------------------------------------- *)
Fixpoint scan_pure (rows : list (list Z * list Z)) (p : list Z) (code : option (list Z))
                   (names : list (list Z)) : option (list Z) * list (list Z) :=
  match rows with
  | [] => (code, names)
  | (nm, cd) :: rest =>
      if list_eqb cd p then scan_pure rest p (Some cd) (names ++ [nm])
      else if list_eqb nm p then (Some cd, names ++ [nm])
      else scan_pure rest p code names
  end.

Lemma rows_ok_tail r rest : rows_ok (r :: rest) -> rows_ok rest.
Proof. intros H x Hx. apply H. right. exact Hx. Qed.

Lemma scan_langs_pure : forall rows p b code names, rows_ok rows -> is_buf p b ->
  scan_langs rows b code names = Some (scan_pure rows p code names).
Proof.
  induction rows as [|[nm cd] rest IH]; intros p b code names Hok Hb; simpl.
  - reflexivity.
  - destruct (Hok (nm, cd) (or_introl eq_refl)) as [Hn Hc]. simpl in Hn, Hc.
    rewrite (strcmp_ok cd p b Hc Hb), (strcmp_ok nm p b Hn Hb).
    apply rows_ok_tail in Hok.
    destruct (list_eqb cd p); [apply IH; auto|].
    destruct (list_eqb nm p); [reflexivity|apply IH; auto].
Qed.

Lemma scan_pure_by_code : forall rows p code names,
  (forall r, In r rows -> list_eqb (fst r) p = false) ->
  scan_pure rows p code names =
  (match filter (fun r => list_eqb (snd r) p) rows with [] => code | _ => Some p end,
   names ++ map fst (filter (fun r => list_eqb (snd r) p) rows)).
Proof.
  induction rows as [|[nm cd] rest IH]; intros p code names H; simpl.
  - rewrite app_nil_r. reflexivity.
  - destruct (list_eqb cd p) eqn:E.
    + apply list_eqb_eq in E. subst cd.
      rewrite IH by (intros; apply H; right; auto).
      simpl. rewrite <- app_assoc. simpl.
      destruct (filter _ rest); reflexivity.
    + assert (En : list_eqb nm p = false) by (apply (H (nm, cd)); left; reflexivity).
      rewrite En. apply IH. intros; apply H; right; auto.
Qed.

Lemma scan_pure_by_name : forall rows p code names,
  (forall r, In r rows -> list_eqb (snd r) p = false) ->
  scan_pure rows p code names =
  match find (fun r => list_eqb (fst r) p) rows with
  | Some (nm, cd) => (Some cd, names ++ [nm])
  | None => (code, names)
  end.
Proof.
  induction rows as [|[nm cd] rest IH]; intros p code names H; simpl.
  - reflexivity.
  - assert (Ec : list_eqb cd p = false) by (apply (H (nm, cd)); left; reflexivity).
    rewrite Ec. destruct (list_eqb nm p); [reflexivity|].
    apply IH. intros; apply H; right; auto.
Qed.

Lemma scan_pure_lookup langs p : names_not_codes langs ->
  scan_pure langs p None [] =
  match lang_lookup langs p with Some (cd, names) => (Some cd, names) | None => (None, []) end.
Proof.
  intros Hnc. unfold lang_lookup.
  destruct (filter (fun r => list_eqb (snd r) p) langs) as [|r0 rows'] eqn:Ef.
  - rewrite scan_pure_by_name.
    + destruct (find _ langs) as [[nm cd]|]; reflexivity.
    + intros r Hr. exact (filter_nil_false _ _ Ef r Hr).
  - assert (Hr0 : In r0 langs /\ list_eqb (snd r0) p = true).
    { apply (filter_In (fun r => list_eqb (snd r) p)). rewrite Ef. left; reflexivity. }
    destruct Hr0 as [Hin Heq]. apply list_eqb_eq in Heq.
    rewrite scan_pure_by_code.
    + rewrite Ef. reflexivity.
    + intros r Hr. rewrite <- Heq. apply Hnc; auto.
Qed.

Lemma lang_lookup_names langs p cd names : lang_lookup langs p = Some (cd, names) -> names <> [].
Proof.
  unfold lang_lookup.
  destruct (filter (fun r => list_eqb (snd r) p) langs) as [|r0 rows'].
  - destruct (find _ langs) as [[nm cd']|]; intro H; inversion H; discriminate.
  - intro H; inversion H; simpl; discriminate.
Qed.

(* ---- the country scan -------------------------------------------------------------------------- *)
Lemma scan_country_pure : forall rows p b, rows_ok rows -> is_buf p b ->
  scan_country rows b = Some (country_lookup rows p).
Proof.
  unfold country_lookup.
  induction rows as [|[nm cd] rest IH]; intros p b Hok Hb; simpl.
  - reflexivity.
  - destruct (Hok (nm, cd) (or_introl eq_refl)) as [Hn Hc]. simpl in Hn, Hc.
    rewrite (strcmp_ok cd p b Hc Hb), (strcmp_ok nm p b Hn Hb).
    apply rows_ok_tail in Hok.
    destruct (list_eqb cd p); [reflexivity|].
    destruct (list_eqb nm p); [reflexivity|]. simpl. apply IH; auto.
Qed.

(* ---- over-long parts are in no table ----------------------------------------------------------- *)
Lemma long_no_match t p : str_ok t = true -> (64 <= length p)%nat -> list_eqb t p = false.
Proof.
  intros Ht Hl. destruct (list_eqb t p) eqn:E; auto.
  apply list_eqb_len in E. apply str_ok_elim in Ht. lia.
Qed.

Lemma lang_lookup_long langs p : rows_ok langs -> (64 <= length p)%nat -> lang_lookup langs p = None.
Proof.
  intros Hok Hl. unfold lang_lookup.
  rewrite false_filter_nil.
  - rewrite false_find_none; [reflexivity|].
    intros r Hr. apply long_no_match; auto. apply Hok; auto.
  - intros r Hr. apply long_no_match; auto. apply Hok; auto.
Qed.

Lemma country_lookup_long countries p : rows_ok countries -> (64 <= length p)%nat ->
  country_lookup countries p = None.
Proof.
  intros Hok Hl. unfold country_lookup. apply false_find_none.
  intros r Hr. destruct (Hok r Hr) as [Hn Hc].
  rewrite (long_no_match _ _ Hn Hl), (long_no_match _ _ Hc Hl). reflexivity.
Qed.

(* ---- main theorem ------------------------------------------------------------------------------ *)
Lemma get_is_spec : forall langs countries s,
  tables_ok langs countries = true -> ~ In 0 s ->
  get langs countries true s = LOk (spec_get langs countries s).
Proof.
  intros langs countries s Hok Hs.
  destruct (tables_ok_elim _ _ Hok) as [HL [HC HN]].
  unfold get, spec_get, split. cbv zeta.
  destruct (index_of USC s) as [us|] eqn:Eus; [|reflexivity].
  pose proof (index_of_bound _ _ _ Eus) as Hus.
  set (dot := match index_of DOT s with Some i => i | None => Zlen s end).
  assert (Hdot : 0 <= dot <= Zlen s).
  { unfold dot. destruct (index_of DOT s) eqn:Ed; [apply index_of_bound in Ed|]; lia. }
  clearbody dot.
  unfold BUF.
  destruct (us <? dot) eqn:E1; [|reflexivity].
  apply Z.ltb_lt in E1.
  set (l := firstn (Z.to_nat us) s).
  set (c := firstn (Z.to_nat (dot - us - 1)) (skipn (Z.to_nat (us + 1)) s)).
  assert (Hll : length l = Z.to_nat us).
  { unfold l. rewrite firstn_length. unfold Zlen in *. lia. }
  assert (Hlc : length c = Z.to_nat (dot - us - 1)).
  { unfold c. rewrite firstn_length, skipn_length. unfold Zlen in *. lia. }
  destruct (us <=? 64 - 1) eqn:E2.
  2:{ cbv beta iota delta [andb negb]. apply Z.leb_gt in E2.
      rewrite lang_lookup_long; [reflexivity | exact HL | lia]. }
  apply Z.leb_le in E2.
  destruct (dot - us - 1 <=? 64 - 1) eqn:E3.
  2:{ cbv beta iota delta [andb negb]. apply Z.leb_gt in E3.
      rewrite (country_lookup_long countries c); [| exact HC | lia].
      destruct (lang_lookup langs l) as [[cd names]|]; reflexivity. }
  apply Z.leb_le in E3.
  cbv beta iota delta [andb negb].
  destruct (memcpy_ok s us Hs) as [b1 [Hm1 Hb1]]; [lia | lia | ].
  rewrite Hm1. fold l in Hb1.
  rewrite (scan_langs_pure langs l b1 None [] HL Hb1).
  rewrite (scan_pure_lookup langs l HN).
  assert (Hs2 : ~ In 0 (skipn (Z.to_nat (us + 1)) s)).
  { intro Hin. apply Hs. eapply In_skipn_in; eauto. }
  destruct (memcpy_ok (skipn (Z.to_nat (us + 1)) s) (dot - us - 1) Hs2) as [b2 [Hm2 Hb2]].
  { lia. }
  { unfold Zlen in *. rewrite skipn_length. lia. }
  fold c in Hb2.
  destruct (lang_lookup langs l) as [[cd names]|] eqn:EL.
  - rewrite Hm2.
    apply lang_lookup_names in EL.
    destruct names as [|n0 names]; [congruence|].
    rewrite (scan_country_pure countries c b2 HC Hb2).
    destruct (country_lookup countries c) as [[cn cc]|]; reflexivity.
  - rewrite Hm2. reflexivity.
Qed.

(* ---- every result is a table entry ------------------------------------------------------------- *)
Lemma results_are_table_entries : forall langs countries s,
  let i := spec_get langs countries s in
  i = fallback \/
  (i_error i = false /\
   exists cd cn cc, i_code i = Some cd /\ i_country i = Some cn /\ i_ccode i = Some cc /\
                    In (cn, cc) countries /\ i_langs i <> [] /\ forall n, In n (i_langs i) -> In (n, cd) langs).
Proof.
  intros langs countries s. cbv zeta. unfold spec_get.
  destruct (split s) as [[l c]|]; [|left; reflexivity].
  destruct (lang_lookup langs l) as [[cd names]|] eqn:EL; [|left; reflexivity].
  destruct (country_lookup countries c) as [[cn cc]|] eqn:EC; [|left; reflexivity].
  right. cbn [i_error i_code i_country i_ccode i_langs]. split; [reflexivity|].
  exists cd, cn, cc. repeat split.
  - unfold country_lookup in EC. apply find_some in EC. apply EC.
  - eapply lang_lookup_names; eauto.
  - intros n Hn. unfold lang_lookup in EL.
    destruct (filter (fun r => list_eqb (snd r) l) langs) as [|r0 rows'] eqn:Ef.
    + destruct (find (fun r => list_eqb (fst r) l) langs) as [[nm cd']|] eqn:Efd; [|discriminate].
      inversion EL; subst. destruct Hn as [Hn|[]]. subst n.
      apply find_some in Efd. apply Efd.
    + inversion EL; subst.
      assert (Hn' : In n (map fst (r0 :: rows'))) by exact Hn. clear Hn. rename Hn' into Hn.
      rewrite <- Ef in Hn.
      apply in_map_iff in Hn. destruct Hn as [[n' cd'] [Hfst Hin]]. simpl in Hfst. subst n'.
      apply filter_In in Hin. destruct Hin as [Hin Heq]. simpl in Heq.
      apply list_eqb_eq in Heq. subst cd'. exact Hin.
Qed.
