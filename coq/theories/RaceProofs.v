(* RaceProofs.v — the lock discipline is an invariant of lrun; a table that passes the check has
   no two conflicting accesses performable by different threads in a reachable lock state. *)
From Coq Require Import List String Bool Arith Lia.
From Tulz Require Import RaceModel.
Import ListNotations.

Lemma held_overflow : forall (st : lstate) t, List.length st <= t -> held st t = [].
Proof. intros st t H. unfold held. apply nth_overflow. exact H. Qed.

Lemma set_nth_length : forall A (l : list A) n x, List.length (set_nth l n x) = List.length l.
Proof.
  induction l as [|h tl IH]; intros [|n] x; simpl; auto.
Qed.

Lemma nth_set_nth_eq : forall A (l : list A) n x d, n < List.length l -> nth n (set_nth l n x) d = x.
Proof.
  induction l as [|h tl IH]; intros [|n] x d H; simpl in *; try lia; auto.
  apply IH. lia.
Qed.

Lemma nth_set_nth_neq : forall A (l : list A) n u x d, u <> n -> nth u (set_nth l n x) d = nth u l d.
Proof.
  induction l as [|h tl IH]; intros [|n] [|u] x d H; simpl in *; auto; try congruence.
Qed.

Lemma held_set_nth_eq : forall (st : lstate) t x, t < List.length st -> held (set_nth st t x) t = x.
Proof. intros. unfold held. apply nth_set_nth_eq. assumption. Qed.

Lemma held_set_nth_neq : forall (st : lstate) t u x, u <> t -> held (set_nth st t x) u = held st u.
Proof. intros. unfold held. apply nth_set_nth_neq. assumption. Qed.

Lemma remove_guard_In : forall g l x, In x (remove_guard g l) -> In x l.
Proof.
  induction l as [|h tl IH]; intros x H; simpl in *; auto.
  destruct (String.eqb (fst h) (fst g) && gmode_eqb (snd h) (snd g)).
  - right. exact H.
  - destruct H as [H|H]; [left; exact H | right; apply IH; exact H].
Qed.

Definition LD (st : lstate) : Prop :=
  forall t1 t2 l m1 m2, t1 <> t2 -> In (l, m1) (held st t1) -> In (l, m2) (held st t2) ->
  m1 = Shared /\ m2 = Shared.

Lemma LD_init : forall n, LD (linit n).
Proof.
  intros n t1 t2 l m1 m2 _ H1 _. unfold held, linit in H1.
  assert (E : nth t1 (repeat (@nil guard) n) [] = []).
  { destruct (Nat.lt_ge_cases t1 n) as [Hlt|Hge].
    - apply nth_repeat.
    - apply nth_overflow. rewrite repeat_length. exact Hge. }
  rewrite E in H1. destruct H1.
Qed.

(* what can_acquire gives: every guard held by another thread is compatible with g *)
Lemma can_acquire_spec : forall st t g u h,
  can_acquire st t g = true -> u <> t -> In h (held st u) ->
  fst h <> fst g \/ (snd h = Shared /\ snd g = Shared).
Proof.
  intros st t g u h Hc Hne Hin.
  destruct (Nat.lt_ge_cases u (List.length st)) as [Hlt|Hge].
  - unfold can_acquire in Hc. rewrite forallb_forall in Hc.
    assert (Hu : In u (seq 0 (List.length st))) by (apply in_seq; lia).
    specialize (Hc u Hu). apply orb_true_iff in Hc. destruct Hc as [Hc|Hc].
    + apply Nat.eqb_eq in Hc. contradiction.
    + rewrite forallb_forall in Hc. specialize (Hc h Hin).
      apply orb_true_iff in Hc. destruct Hc as [Hc|Hc].
      * left. apply negb_true_iff in Hc. apply String.eqb_neq in Hc. exact Hc.
      * right. apply andb_true_iff in Hc. destruct Hc as [Ha Hb].
        destruct (snd h), (snd g); simpl in *; try discriminate; auto.
  - rewrite held_overflow in Hin by exact Hge. destruct Hin.
Qed.

Lemma LD_step : forall st o st', LD st -> lstep st o = Some st' -> LD st'.
Proof.
  intros st o st' HLD Hs. destruct o as [t g|t g]; simpl in Hs.
  - destruct (Nat.ltb t (List.length st)) eqn:Hlt; simpl in Hs; try discriminate.
    destruct (can_acquire st t g) eqn:Hc; try discriminate.
    inversion Hs; subst st'; clear Hs. apply Nat.ltb_lt in Hlt.
    intros t1 t2 l m1 m2 Hne H1 H2.
    destruct (Nat.eq_dec t1 t) as [E1|N1]; destruct (Nat.eq_dec t2 t) as [E2|N2].
    + subst. contradiction.
    + subst t1. rewrite held_set_nth_eq in H1 by exact Hlt.
      rewrite held_set_nth_neq in H2 by exact N2.
      destruct H1 as [H1|H1].
      * subst g. destruct (can_acquire_spec _ _ _ _ _ Hc N2 H2) as [Hd|[Ha Hb]]; simpl in *.
        -- exfalso; apply Hd; reflexivity.
        -- split; assumption.
      * exact (HLD _ _ _ _ _ Hne H1 H2).
    + subst t2. rewrite held_set_nth_eq in H2 by exact Hlt.
      rewrite held_set_nth_neq in H1 by exact N1.
      destruct H2 as [H2|H2].
      * subst g. destruct (can_acquire_spec _ _ _ _ _ Hc N1 H1) as [Hd|[Ha Hb]]; simpl in *.
        -- exfalso; apply Hd; reflexivity.
        -- split; assumption.
      * exact (HLD _ _ _ _ _ Hne H1 H2).
    + rewrite held_set_nth_neq in H1 by exact N1.
      rewrite held_set_nth_neq in H2 by exact N2.
      exact (HLD _ _ _ _ _ Hne H1 H2).
  - destruct (Nat.ltb t (List.length st)) eqn:Hlt; try discriminate.
    inversion Hs; subst st'; clear Hs. apply Nat.ltb_lt in Hlt.
    intros t1 t2 l m1 m2 Hne H1 H2.
    assert (K : forall u x, In x (held (set_nth st t (remove_guard g (held st t))) u) -> In x (held st u)).
    { intros u x Hx. destruct (Nat.eq_dec u t) as [E|N].
      - subst u. rewrite held_set_nth_eq in Hx by exact Hlt. eapply remove_guard_In; eauto.
      - rewrite held_set_nth_neq in Hx by exact N. exact Hx. }
    apply K in H1. apply K in H2. exact (HLD _ _ _ _ _ Hne H1 H2).
Qed.

Lemma LD_run : forall os st, LD st -> LD (lrun st os).
Proof.
  induction os as [|o rest IH]; intros st H; simpl; auto.
  destruct (lstep st o) as [st'|] eqn:E.
  - apply IH. eapply LD_step; eauto.
  - apply IH. exact H.
Qed.

Lemma lock_discipline : forall n os t1 t2 l m1 m2,
  t1 <> t2 -> In (l, m1) (held (lrun (linit n) os) t1) -> In (l, m2) (held (lrun (linit n) os) t2) ->
  m1 = Shared /\ m2 = Shared.
Proof.
  intros n os. exact (LD_run os (linit n) (LD_init n)).
Qed.

Lemma table_drf : forall role_of per_worker exempt tbl,
  table_ok role_of per_worker exempt tbl = true ->
  forall n os t1 t2 a1 a2,
  In a1 tbl -> In a2 tbl -> t1 <> t2 ->
  can_perform (lrun (linit n) os) t1 a1 -> can_perform (lrun (linit n) os) t2 a2 ->
  conflicting a1 a2 = true ->
  concurrent (role_of a1) (role_of a2) = true ->
  (match role_of a1, role_of a2 with Worker, Worker => per_worker a1 && per_worker a2 | _, _ => false end) = false ->
  exempt a1 a2 = false -> False.
Proof.
  intros role_of per_worker exempt tbl Hok n os t1 t2 a1 a2 Hi1 Hi2 Hne Hp1 Hp2 Hconf Hconc Hpw Hex.
  unfold table_ok in Hok. rewrite forallb_forall in Hok.
  specialize (Hok a1 Hi1). rewrite forallb_forall in Hok. specialize (Hok a2 Hi2).
  unfold pair_ok in Hok. rewrite Hconf, Hconc, Hpw, Hex in Hok. simpl in Hok.
  rewrite orb_false_r in Hok.
  unfold protected in Hok. apply existsb_exists in Hok. destruct Hok as [g1 [Hg1 Hok]].
  apply existsb_exists in Hok. destruct Hok as [g2 [Hg2 Hok]].
  apply andb_true_iff in Hok. destruct Hok as [Heq Hexcl].
  apply String.eqb_eq in Heq.
  apply Hp1 in Hg1. apply Hp2 in Hg2.
  destruct g1 as [l1 m1], g2 as [l2 m2]. simpl in *. subst l2.
  destruct (lock_discipline n os t1 t2 l1 m1 m2 Hne Hg1 Hg2) as [E1 E2].
  subst. simpl in Hexcl. discriminate.
Qed.
