(* RouterModel.v — executable model of include/tulz/observer/routing/SubjectRouter.h and
   src/observer/routing/SubjectRouter.cpp (definitions only).

   A node has a name, an optional Subject and children kept sorted by name (std::map). Level
   names are integers (the implementation side maps them to strings whose byte-wise order is
   the order of the integers). A routing key is a list of levels; a level is a string or a
   regex, and a regex is represented by the set of names it fully matches (an arbitrary
   predicate on the finite set of names that occur). The Subject of a node is represented by
   what C05 proves about it: its subscriptions in subscription order with their valid / muted
   flags; delivery invokes the valid unmuted ones in order and removes the invalid ones.

   Template argument deduction is modelled by a signature tag carried down the recursion of
   Node::notify exactly as the templates carry Args...: a named level forwards the pack
   unchanged; a regex level either re-deduces it from lvalues ([fwd = false], the pinned
   upstream code: by-value signatures become reference signatures) or passes
   static_cast<Args>(args)... with explicit <Args...> ([fwd = true], the tree's code). At the
   leaf the Subject is reinterpreted as Subject<Args...>: a tag different from the one the
   Subject was created with is the error SigMismatch (undefined behaviour in C++). *)
From Coq Require Import List ZArith Bool Lia Arith.
From Tulz Require Import Common.
Import ListNotations.
Local Open Scope Z_scope.

Inductive level := LStr (n : Z) | LRx (ms : list Z).

Definition memZ (x : Z) (l : list Z) : bool := existsb (Z.eqb x) l.

Definition matches (l : level) (name : Z) : bool :=
  match l with LStr n => n =? name | LRx ms => memZ name ms end.
Definition is_regex (l : level) : bool := match l with LRx _ => true | LStr _ => false end.

(* signature tags: the value is the same abstract argument in every case *)
Inductive sig := SVal (k : Z) | SRef (k : Z).     (* SVal k: by-value pack number k; SRef k: its lvalue-reference re-deduction *)
Definition sig_eqb (a b : sig) : bool :=
  match a, b with SVal x, SVal y => x =? y | SRef x, SRef y => x =? y | _, _ => false end.
(* which packs are by-value (re-deduction changes them); references and the empty pack are stable *)
Definition redecuce (byval : Z -> bool) (s : sig) : sig :=
  match s with SVal k => if byval k then SRef k else SVal k | SRef k => SRef k end.

Record orec := mkOR { r_obs : nat; r_valid : bool; r_muted : bool }.
Record rsubject := mkRS { s_sig : sig; s_subs : list orec }.

Inductive node := Node (name : Z) (subj : option rsubject) (children : list node).

Definition nname (n : node) : Z := match n with Node nm _ _ => nm end.
Definition nsubj (n : node) : option rsubject := match n with Node _ s _ => s end.
Definition nchildren (n : node) : list node := match n with Node _ _ c => c end.

Inductive rerror := SigMismatch.

(* Subject::notify on the record representation: calls (observer, value) in order; the
   invalid subscriptions are removed afterwards *)
Definition deliver_subs (subs : list orec) (arg : Z) : list (nat * Z) * list orec :=
  (map (fun r => (r_obs r, arg)) (filter (fun r => r_valid r && negb (r_muted r)) subs),
   filter r_valid subs).

(* result of a notification below a node: number of Subjects reached, calls in order, new node;
   or the error *)
Definition nres := option (Z * list (nat * Z) * node).

Definition wrap (nm : Z) (sj : option rsubject) (r : option (Z * list (nat * Z) * list node)) : nres :=
  match r with Some (k, calls, ch') => Some (k, calls, Node nm sj ch') | None => None end.

Section Notify.
  Variable fwd : bool.
  Variable byval : Z -> bool.
  Variable arg : Z.

  (* Node::notify<Args...>(levelView, args...); [lv] starts with the level of this node *)
  Fixpoint notify_node (n : node) (lv : list level) (cur : sig) {struct n} : nres :=
    match n with
    | Node nm sj ch =>
        match lv with
        | [] => Some (0, [], n)
        | l :: rest =>
            if negb (matches l nm) then Some (0, [], n)
            else match rest with
                 | [] =>                                            (* levelView.isLeaf() *)
                     match sj with
                     | Some s =>
                         if sig_eqb (s_sig s) cur then
                           let '(calls, subs') := deliver_subs (s_subs s) arg in
                           Some (1, calls, Node nm (Some (mkRS (s_sig s) subs')) ch)
                         else None
                     | None => Some (0, [], n)
                     end
                 | nl :: _ =>
                     if is_regex nl then
                       let cur' := if fwd then cur else redecuce byval cur in
                       wrap nm sj ((fix all (cs : list node) : option (Z * list (nat * Z) * list node) :=
                          match cs with
                          | [] => Some (0, [], [])
                          | c :: cs' =>
                              match notify_node c rest cur' with
                              | None => None
                              | Some (k, calls, c') =>
                                  match all cs' with
                                  | None => None
                                  | Some (k2, calls2, cs2) => Some (k + k2, calls ++ calls2, c' :: cs2)
                                  end
                              end
                          end) ch)
                     else
                       wrap nm sj ((fix one (cs : list node) : option (Z * list (nat * Z) * list node) :=
                          match cs with
                          | [] => Some (0, [], [])
                          | c :: cs' =>
                              if nname c =? (match nl with LStr x => x | LRx _ => 0 end) then
                                match notify_node c rest cur with
                                | None => None
                                | Some (k, calls, c') => Some (k, calls, c' :: cs')
                                end
                              else match one cs' with
                                   | None => None
                                   | Some (k, calls, cs2) => Some (k, calls, c :: cs2)
                                   end
                          end) ch)
                 end
        end
    end.
End Notify.

(* std::map insertion keeps the children sorted by name *)
Fixpoint insert_child (cs : list node) (c : node) : list node :=
  match cs with
  | [] => [c]
  | d :: cs' => if nname c <? nname d then c :: cs else d :: insert_child cs' c
  end.

(* Node::subscribe via lookupNode: [key] is the list of names below this node *)
Fixpoint subscribe_below (fuel : nat) (n : node) (key : list Z) (s : sig) (o : nat) : option node :=
  match fuel with
  | O => None
  | S f =>
      match n with
      | Node nm sj ch =>
          match key with
          | [] =>
              match sj with
              | None => Some (Node nm (Some (mkRS s [mkOR o true false])) ch)
              | Some sb => if sig_eqb (s_sig sb) s then Some (Node nm (Some (mkRS (s_sig sb) (s_subs sb ++ [mkOR o true false]))) ch)
                           else None                       (* subscribing with another signature: undefined behaviour *)
              end
          | k :: key' =>
              match find (fun c => nname c =? k) ch with
              | Some c =>
                  match subscribe_below f c key' s o with
                  | Some c' => Some (Node nm sj (map (fun d => if nname d =? k then c' else d) ch))
                  | None => None
                  end
              | None =>
                  match subscribe_below f (Node k None []) key' s o with
                  | Some c' => Some (Node nm sj (insert_child ch c'))
                  | None => None
                  end
              end
          end
      end
  end.

Definition is_empty (n : node) : bool :=
  match n with
  | Node _ sj ch =>
      (match sj with None => true | Some s => match s_subs s with [] => true | _ => false end end) &&
      (match ch with [] => true | _ => false end)
  end.

(* Node::shrink *)
Fixpoint shrink_node (n : node) (lv : list level) {struct n} : node :=
  match n with
  | Node nm sj ch =>
      match lv with
      | [] => n
      | l :: rest =>
          if negb (matches l nm) then n
          else
            let ch1 :=
              match rest with
              | [] => ch
              | nl :: _ =>
                  if is_regex nl then map (fun c => shrink_node c rest) ch
                  else map (fun c => if nname c =? (match nl with LStr x => x | LRx _ => 0 end)
                                     then shrink_node c rest else c) ch
              end in
            Node nm sj (filter (fun c => negb (is_empty c)) ch1)
      end
  end.

(* Node::exists *)
Fixpoint exists_node (n : node) (lv : list level) {struct n} : bool :=
  match n with
  | Node nm sj ch =>
      match lv with
      | [] => false
      | l :: rest =>
          if negb (matches l nm) then false
          else match rest with
               | [] => true
               | nl :: _ =>
                   if is_regex nl then existsb (fun c => exists_node c rest) ch
                   else existsb (fun c => (nname c =? (match nl with LStr x => x | LRx _ => 0 end)) && exists_node c rest) ch
               end
      end
  end.

(* Node::depth *)
Fixpoint depth_node (n : node) : Z :=
  match n with
  | Node _ _ ch => 1 + fold_right Z.max 0 (map depth_node ch)
  end.

(* operations through a subscription handle: they reach the record of observer o at [key] *)
Fixpoint update_at (n : node) (key : list Z) (f : list orec -> list orec) {struct n} : node :=
  match n with
  | Node nm sj ch =>
      match key with
      | [] => Node nm (match sj with Some s => Some (mkRS (s_sig s) (f (s_subs s))) | None => None end) ch
      | k :: key' => Node nm sj (map (fun c => if nname c =? k then update_at c key' f else c) ch)
      end
  end.

(* ---- the router and its operations ------------------------------------------------------ *)

Definition ROOT : Z := 0.      (* the name of the root node: the empty string *)

Record router := mkRt {
  root : node;
  rhandles : list (list Z * nat);        (* per handle: key below the root, observer *)
  rnext : nat
}.
Definition router0 : router := mkRt (Node ROOT None []) [] 0.

Inductive rop :=
| RSubscribe (key : list Z)
| RUnsub (h : nat) | RMute (h : nat) | RUnmute (h : nat) | RInval (h : nat)
| RNotify (pat : list level) (arg : Z)
| RShrink (pat : list level)
| RExists (pat : list level)
| RDepth.

(* is the subscription of handle h still present in the tree? *)
Fixpoint find_at (n : node) (key : list Z) : option rsubject :=
  match n with
  | Node nm sj ch =>
      match key with
      | [] => sj
      | k :: key' => match find (fun c => nname c =? k) ch with Some c => find_at c key' | None => None end
      end
  end.
Definition handle_live (r : router) (h : nat) : bool :=
  match nth_error (rhandles r) h with
  | Some (key, o) => match find_at (root r) key with
                     | Some s => existsb (fun x => Nat.eqb (r_obs x) o) (s_subs s)
                     | None => false
                     end
  | None => false
  end.

Definition on_handle (r : router) (h : nat) (f : nat -> list orec -> list orec) : router :=
  if handle_live r h then
    match nth_error (rhandles r) h with
    | Some (key, o) => mkRt (update_at (root r) key (f o)) (rhandles r) (rnext r)
    | None => r
    end
  else r.

Definition set_flag (g : orec -> orec) (o : nat) (l : list orec) : list orec :=
  map (fun x => if Nat.eqb (r_obs x) o then g x else x) l.

(* patterns and keys are given below the root; the builder prepends the root level "" *)
Definition full (pat : list level) : list level := LStr ROOT :: pat.

(* result of an operation: new router, returned values, calls; None = undefined behaviour *)
Definition rstep (fwd : bool) (byval : Z -> bool) (s : sig) (r : router) (o : rop)
  : option (router * list Z * list (nat * Z)) :=
  match o with
  | RSubscribe key =>
      match subscribe_below (S (length key)) (root r) key s (rnext r) with
      | Some n' => Some (mkRt n' (rhandles r ++ [(key, rnext r)]) (S (rnext r)), [], [])
      | None => None
      end
  | RUnsub h => Some (on_handle r h (fun o l => filter (fun x => negb (Nat.eqb (r_obs x) o)) l), [], [])
  | RMute h => Some (on_handle r h (set_flag (fun x => mkOR (r_obs x) (r_valid x) true)), [], [])
  | RUnmute h => Some (on_handle r h (set_flag (fun x => mkOR (r_obs x) (r_valid x) false)), [], [])
  | RInval h => Some (on_handle r h (set_flag (fun x => mkOR (r_obs x) false (r_muted x))), [], [])
  | RNotify pat arg =>
      match notify_node fwd byval arg (root r) (full pat) s with
      | Some (k, calls, n') => Some (mkRt n' (rhandles r) (rnext r), [k], calls)
      | None => None
      end
  | RShrink pat => Some (mkRt (shrink_node (root r) (full pat)) (rhandles r) (rnext r), [], [])
  | RExists pat => Some (r, [b2z (exists_node (root r) (full pat))], [])
  | RDepth => Some (r, [depth_node (root r)], [])
  end.

(* ---- runner for the correspondence check ------------------------------------------------ *)

(* a pattern is a flat list of level tokens: 0 name | 1 regex-number | 2 (= all(), regex number 0) *)
Fixpoint levels_of (fuel : nat) (rx : list (list Z)) (l : list Z) : option (list level) :=
  match fuel with
  | O => None
  | S f =>
      match l with
      | [] => Some []
      | 0 :: n :: rest => option_map (cons (LStr n)) (levels_of f rx rest)
      | 1 :: i :: rest => if (0 <=? i) && (i <? Zlen rx)
                          then option_map (cons (LRx (nth (Z.to_nat i) rx []))) (levels_of f rx rest) else None
      | 2 :: rest => option_map (cons (LRx (nth 0 rx []))) (levels_of f rx rest)
      | _ => None
      end
  end.

Definition rop_of (rx : list (list Z)) (r : router) (l : list Z) : option rop :=
  let okH h := (0 <=? h) && (h <? Zlen (rhandles r)) in
  match l with
  | 0 :: key => if forallb (fun k => (0 <=? k) && (k <=? 13)) key then Some (RSubscribe key) else None
  | [1; h] => if okH h then Some (RUnsub (Z.to_nat h)) else None
  | [2; h] => if okH h then Some (RMute (Z.to_nat h)) else None
  | [3; h] => if okH h then Some (RUnmute (Z.to_nat h)) else None
  | [4; h] => if okH h then Some (RInval (Z.to_nat h)) else None
  | 6 :: arg :: pat => option_map (fun p => RNotify p arg) (levels_of (S (length pat)) rx pat)
  | 11 :: pat => option_map RShrink (levels_of (S (length pat)) rx pat)
  | 12 :: pat => option_map RExists (levels_of (S (length pat)) rx pat)
  | [13] => Some RDepth
  | _ => None
  end.

Definition UB : Z := -777003.

Fixpoint router_run_lines (fwd : bool) (byval : Z -> bool) (s : sig) (rx : list (list Z)) (r : router)
  (ls : list (list Z)) : list (list Z) :=
  match ls with
  | [] => []
  | l :: rest =>
      match rop_of rx r l with
      | None => [PRE] :: router_run_lines fwd byval s rx r rest
      | Some o =>
          match rstep fwd byval s r o with
          | Some (r', ret, calls) =>
              (ret ++ [SEP] ++ flat_map (fun c => [Z.of_nat (fst c); snd c]) calls)
              :: router_run_lines fwd byval s rx r' rest
          | None => [[UB]]
          end
      end
  end.

(* which signature numbers of the harness are by-value packs: 1 = (int), 2 = (std::string),
   4 = (int, std::string); 0 = () and 3 = (const std::string&) are stable under re-deduction *)
Definition harness_byval (k : Z) : bool := (k =? 1) || (k =? 2) || (k =? 4).

(* case: header [variant; nregex; signature; router kind], then nregex lines (the names each
   regex of the table fully matches; regex 0 is the wildcard), then operation lines.
   variant 1 = the tree's code, 0 = pinned upstream; signature 0 always delivers the value 0 *)
Definition router_run (case : list (list Z)) : list (list Z) :=
  match case with
  | [v; nrx; sg; _] :: rest =>
      let rx := firstn (Z.to_nat nrx) rest in
      let ops := map (fun l => match l with
                               | 6 :: arg :: pat => if sg =? 0 then 6 :: 0 :: pat else l
                               | _ => l end) (skipn (Z.to_nat nrx) rest) in
      [] :: map (fun _ => []) rx ++ router_run_lines (negb (v =? 0)) harness_byval (SVal sg) rx router0 ops
  | _ => [[PRE]]
  end.
