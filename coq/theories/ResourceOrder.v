(* ResourceOrder.v — rwp::Resource: arrival order, FIFO fairness over the ghost history.

   OInv is the order/history invariant that accompanies RInv: tickets of parked threads are
   ordered like their arrival numbers, the ghost history is linked to the parked threads
   (parked-and-not-granted <-> Parked in the state), issue/park events are logged in arrival
   order, and fifo_ok holds for the history itself. It is inductive for [step true] given
   RInv of the pre-state. *)
From Coq Require Import List ZArith Bool Lia Arith.
From Tulz Require Import Common ResourceModel ResourceInv ResourceLemmas.
Import ListNotations.
Local Open Scope Z_scope.

(* ---- list_set / nth_error ---------------------------------------------------------------- *)

Lemma ls_same : forall (A : Type) (l : list A) t x y,
  nth_error (list_set l t x) t = Some y -> y = x.
Proof.
  induction l as [|h l IH]; destruct t; simpl; intros x y H; try discriminate.
  - congruence.
  - eapply IH; eauto.
Qed.

Lemma ls_hit : forall (A : Type) (l : list A) t x z,
  nth_error l t = Some z -> nth_error (list_set l t x) t = Some x.
Proof.
  induction l as [|h l IH]; destruct t; simpl; intros x z H; try discriminate.
  - reflexivity.
  - eapply IH; eauto.
Qed.

Lemma ls_other : forall (A : Type) (l : list A) t t' x,
  t <> t' -> nth_error (list_set l t x) t' = nth_error l t'.
Proof.
  induction l as [|h l IH]; intros t t' x Hne.
  - destruct t; reflexivity.
  - destruct t, t'; simpl; try reflexivity.
    + congruence.
    + apply IH. congruence.
Qed.

(* ---- parked view of the thread table ------------------------------------------------------ *)

Definition pkl (l : list tstate) (t : nat) (o : optype) (i : Z) (a : nat) : Prop :=
  exists nt, nth_error l t = Some (Parked o i nt a).
Definition pk (s : state) : nat -> optype -> Z -> nat -> Prop := pkl (thr s).

Lemma pkl_fun : forall l t o i a o' i' a',
  pkl l t o i a -> pkl l t o' i' a' -> o = o' /\ i = i' /\ a = a'.
Proof.
  intros l t o i a o' i' a' [nt H1] [nt' H2]. rewrite H1 in H2. inversion H2. auto.
Qed.

Lemma pkl_set_np : forall l t x, is_parked x = false ->
  forall t' o i a, pkl (list_set l t x) t' o i a <-> (pkl l t' o i a /\ t' <> t).
Proof.
  intros l t x Hx t' o i a. unfold pkl. destruct (Nat.eq_dec t' t) as [e|ne].
  - subst t'. split.
    + intros [nt H1]. apply ls_same in H1. subst x. discriminate.
    + intros [_ H1]. congruence.
  - split.
    + intros [nt H1]. rewrite ls_other in H1 by congruence. split; eauto.
    + intros [[nt H1] _]. exists nt. rewrite ls_other by congruence. exact H1.
Qed.

Lemma pkl_set_p : forall l t z op id nt a, nth_error l t = Some z ->
  forall t' o i a', pkl (list_set l t (Parked op id nt a)) t' o i a' <->
    ((pkl l t' o i a' /\ t' <> t) \/ (t' = t /\ o = op /\ i = id /\ a' = a)).
Proof.
  intros l t z op id nt a Hz t' o i a'. unfold pkl. destruct (Nat.eq_dec t' t) as [e|ne].
  - subst t'. split.
    + intros [nt' H1]. apply ls_same in H1. inversion H1. right. auto.
    + intros [[_ H1]|[_ [H1 [H2 H3]]]]; [congruence|]. subst.
      exists nt. eapply ls_hit; eauto.
  - split.
    + intros [nt' H1]. rewrite ls_other in H1 by congruence. left. split; eauto.
    + intros [[[nt' H1] _]|[H1 _]]; [|congruence].
      exists nt'. rewrite ls_other by congruence. exact H1.
Qed.

Lemma pkl_map_notify : forall l t o i a,
  pkl (map notify_one_thread l) t o i a <-> pkl l t o i a.
Proof.
  intros l t o i a. unfold pkl. split.
  - intros [nt H]. rewrite nth_error_map in H.
    destruct (nth_error l t) as [st|]; simpl in H; [|discriminate].
    destruct st; simpl in H; inversion H; subst. eauto.
  - intros [nt H]. rewrite nth_error_map, H. simpl. eauto.
Qed.

Lemma pkl_not : forall l t st o i a, nth_error l t = Some st -> is_parked st = false ->
  ~ pkl l t o i a.
Proof.
  intros l t st o i a H Hp [nt H1]. rewrite H in H1. inversion H1. subst. discriminate.
Qed.

(* ---- what a step does to parked threads, history, arrivals -------------------------------- *)

Inductive step_kind (s s' : state) : Prop :=
| SK_fast (t : nat) (op : optype) :
    nth_error (thr s) t = Some Idle -> fast (rs s) op = true ->
    hist s' = HGrant t (arrivals s) :: HIssue t (arrivals s) op :: hist s ->
    arrivals s' = S (arrivals s) ->
    (forall t' o i a, pk s' t' o i a <-> pk s t' o i a) -> step_kind s s'
| SK_park (t : nat) (op : optype) :
    nth_error (thr s) t = Some Idle -> fast (rs s) op = false ->
    hist s' = HPark t (arrivals s) :: HIssue t (arrivals s) op :: hist s ->
    arrivals s' = S (arrivals s) ->
    (forall t' o i a, pk s' t' o i a <->
       (pk s t' o i a \/ (t' = t /\ o = op /\ i = idCounter (rs s) /\ a = arrivals s))) ->
    step_kind s s'
| SK_wake (t : nat) (op : optype) (id : Z) (a : nat) :
    pk s t op id a -> id < ubound (rs s) ->
    hist s' = HGrant t a :: hist s ->
    arrivals s' = arrivals s ->
    (forall t' o i a', pk s' t' o i a' <-> (pk s t' o i a' /\ t' <> t)) -> step_kind s s'
| SK_other :
    hist s' = hist s -> arrivals s' = arrivals s ->
    (forall t' o i a, pk s' t' o i a <-> pk s t' o i a) -> step_kind s s'.

Lemma pk_set_np_same : forall l t st x, nth_error l t = Some st ->
  is_parked st = false -> is_parked x = false ->
  forall t' o i a, pkl (list_set l t x) t' o i a <-> pkl l t' o i a.
Proof.
  intros l t st x Hst Hp Hx t' o i a. rewrite pkl_set_np by exact Hx. split.
  - intros [H _]. exact H.
  - intros H. split; [exact H|]. intro e. subst t'. eapply pkl_not; eauto.
Qed.

Lemma pk_set_reflag : forall l t op id nt nt' a, nth_error l t = Some (Parked op id nt a) ->
  forall t' o i a', pkl (list_set l t (Parked op id nt' a)) t' o i a' <-> pkl l t' o i a'.
Proof.
  intros l t op id nt nt' a Hst t' o i a'. rewrite pkl_set_p by eauto. split.
  - intros [[H _]|[H1 [H2 [H3 H4]]]]; [exact H|]. subst. exists nt. exact Hst.
  - intros H. destruct (Nat.eq_dec t' t) as [e|ne]; [|left; auto].
    subst t'. right. destruct (pkl_fun _ _ _ _ _ _ _ _ H (ex_intro _ nt Hst)) as [? [? ?]]. auto.
Qed.

Lemma step_cases : forall s l s', step true s l = Some s' -> step_kind s s'.
Proof.
  intros s l s' H. destruct l as [t op|t|t|t|t]; cbn [step] in H.
  - destruct (nth_error (thr s) t) as [[ | | | ]|] eqn:E; try discriminate.
    destruct (fast (rs s) op) eqn:F; inversion H; subst s'; clear H.
    + eapply SK_fast with (t := t) (op := op); eauto.
      intros t' o i a. unfold pk. cbn [thr].
      eapply pk_set_np_same; eauto.
    + eapply SK_park with (t := t) (op := op); eauto.
      intros t' o i a. unfold pk. cbn [thr]. rewrite pkl_set_p by eauto. split.
      * intros [[H _]|H]; auto.
      * intros [H|H]; auto. left. split; auto. intro e. subst t'.
        eapply pkl_not; eauto.
  - destruct (nth_error (thr s) t) as [[ |op id [|] a| | ]|] eqn:E; try discriminate.
    destruct (id <? ubound (rs s)) eqn:L; inversion H; subst s'; clear H.
    + apply Z.ltb_lt in L.
      eapply SK_wake with (t := t) (op := op) (id := id) (a := a); eauto.
      * exists true. exact E.
      * intros t' o i a'. unfold pk. cbn [thr]. apply pkl_set_np. reflexivity.
    + apply SK_other; auto.
      intros t' o i a'. unfold pk. cbn [thr]. eapply pk_set_reflag; eauto.
  - destruct (nth_error (thr s) t) as [[ |op id [|] a| | ]|] eqn:E; try discriminate.
    inversion H; subst s'; clear H.
    apply SK_other; auto.
    intros t' o i a'. unfold pk. cbn [thr]. eapply pk_set_reflag; eauto.
  - destruct (nth_error (thr s) t) as [[ | |op| ]|] eqn:E; try discriminate.
    destruct (activeCount (rs s) - 1 =? 0); inversion H; subst s'; clear H;
      apply SK_other; auto; intros t' o i a'; unfold pk; cbn [thr];
      eapply pk_set_np_same; eauto.
  - destruct (nth_error (thr s) t) as [[ | | | ]|] eqn:E; try discriminate.
    inversion H; subst s'; clear H.
    apply SK_other; auto.
    intros t' o i a'. unfold pk. cbn [thr]. rewrite pkl_map_notify.
    eapply pk_set_np_same; eauto.
Qed.

(* ---- counting ----------------------------------------------------------------------------- *)

Lemma countb_cons : forall (A : Type) (f : A -> bool) x l,
  countb f (x :: l) = (if f x then 1 else 0) + countb f l.
Proof.
  intros A f x l. unfold countb, Zlen. cbn [filter]. destruct (f x); cbn [length]; lia.
Qed.

Lemma countb_nonneg : forall (A : Type) (f : A -> bool) l, 0 <= countb f l.
Proof. intros. unfold countb, Zlen. lia. Qed.

Lemma countb_one : forall (A : Type) (f : A -> bool) l t x,
  nth_error l t = Some x -> f x = true -> 1 <= countb f l.
Proof.
  induction l as [|h l IH]; intros t x H Hf; destruct t; simpl in H; try discriminate.
  - inversion H; subst. rewrite countb_cons, Hf. pose proof (countb_nonneg A f l). lia.
  - rewrite countb_cons. specialize (IH _ _ H Hf). destruct (f h); lia.
Qed.

Lemma countb_two : forall (A : Type) (f : A -> bool) l t1 t2 x1 x2,
  t1 <> t2 -> nth_error l t1 = Some x1 -> nth_error l t2 = Some x2 ->
  f x1 = true -> f x2 = true -> 2 <= countb f l.
Proof.
  induction l as [|h l IH]; intros t1 t2 x1 x2 Hne H1 H2 F1 F2.
  - destruct t1; discriminate.
  - rewrite countb_cons. destruct t1, t2; simpl in H1, H2.
    + congruence.
    + inversion H1; subst. rewrite F1. pose proof (countb_one _ f _ _ _ H2 F2). lia.
    + inversion H2; subst. rewrite F2. pose proof (countb_one _ f _ _ _ H1 F1). lia.
    + assert (2 <= countb f l) by (eapply (IH t1 t2); eauto). destruct (f h); lia.
Qed.

Lemma countb_pos_ex : forall (A : Type) (g : A -> bool) l,
  0 < countb g l -> exists t st, nth_error l t = Some st /\ g st = true.
Proof.
  induction l as [|h l IH]; intros H.
  - unfold countb, Zlen in H. simpl in H. lia.
  - rewrite countb_cons in H. destruct (g h) eqn:G.
    + exists 0%nat, h. auto.
    + destruct IH as [t [st [H1 H2]]]; [lia|]. exists (S t), st. auto.
Qed.

Lemma chain_le : forall q lo hi, chain lo q hi -> lo <= hi.
Proof.
  induction q as [|[ty b] q IH]; simpl; intros lo hi H.
  - lia.
  - destruct H as [H1 H2]. apply IH in H2. lia.
Qed.

(* ---- no barging (RInv only) ---------------------------------------------------------------- *)

Lemma fast_false_queue : forall r op, queue r <> [] -> fast r op = false.
Proof. intros r op H. unfold fast. destruct (queue r); congruence. Qed.

Lemma fast_false_writer : forall s op t id nt a, RInv s ->
  nth_error (thr s) t = Some (Parked Wr id nt a) -> fast (rs s) op = false.
Proof.
  intros s op t id nt a I H.
  destruct (I_parked s I _ _ _ _ _ H) as [Hr He].
  destruct (Z_lt_le_dec id (ubound (rs s))) as [Hlt|Hge].
  - assert (Hop := I_op s I t _ H). cbn in Hop.
    assert (Hb : (id <? ubound (rs s)) = true) by (apply Z.ltb_lt; exact Hlt).
    rewrite Hb in Hop. specialize (Hop eq_refl). inversion Hop as [Ha].
    unfold fast. rewrite <- Ha. destruct (queue (rs s)); destruct op; reflexivity.
  - apply fast_false_queue. intro Q. specialize (He Hge). rewrite Q in He. discriminate.
Qed.

Lemma no_barging : forall n ls t op s',
  (queue (rs (run true (init n) ls)) <> [] \/
   exists t' id nt a, nth_error (thr (run true (init n) ls)) t' = Some (Parked Wr id nt a)) ->
  step true (run true (init n) ls) (Req t op) = Some s' ->
  exists id a, nth_error (thr s') t = Some (Parked op id false a).
Proof.
  intros n ls t op s' Hc Hs.
  pose proof (rinv_reachable n ls) as I.
  remember (run true (init n) ls) as s eqn:Es. clear Es.
  assert (F : fast (rs s) op = false).
  { destruct Hc as [Q|[t' [id [nt [a H]]]]].
    - apply fast_false_queue. exact Q.
    - eapply fast_false_writer; eauto. }
  cbn [step] in Hs.
  destruct (nth_error (thr s) t) as [[ | | | ]|] eqn:E; try discriminate.
  rewrite F in Hs. inversion Hs; subst s'. cbn [thr].
  exists (idCounter (rs s)), (arrivals s). eapply ls_hit; eauto.
Qed.

(* ---- the history ---------------------------------------------------------------------------- *)

Definition ev_arr (e : hev) : nat :=
  match e with HIssue _ a _ => a | HPark _ a => a | HGrant _ a => a end.
Definition is_grant (e : hev) : bool := match e with HGrant _ _ => true | _ => false end.

(* every issue/park event carries an arrival number >= that of every older event *)
Fixpoint hsorted (h : list hev) : Prop :=
  match h with
  | [] => True
  | e :: pre => (is_grant e = false -> forall e', In e' pre -> (ev_arr e' <= ev_arr e)%nat) /\
                hsorted pre
  end.

Lemma hsorted_app : forall p e rest, hsorted (p ++ e :: rest) -> is_grant e = false ->
  forall e', In e' rest -> (ev_arr e' <= ev_arr e)%nat.
Proof.
  induction p as [|x p IH]; simpl; intros e rest [H1 H2] Hg e' Hin.
  - apply H1; auto.
  - eapply IH; eauto.
Qed.

Lemma hev_eq_dec : forall x y : hev, {x = y} + {x <> y}.
Proof. decide equality; try apply Nat.eq_dec; decide equality. Qed.

Lemma park_before_grant : forall h post pre tw w ta a,
  hsorted h -> h = post ++ HGrant tw w :: pre -> In (HPark ta a) h -> (a < w)%nat ->
  In (HPark ta a) pre.
Proof.
  intros h post pre tw w ta a Hs E Hin Hlt. subst h.
  apply in_app_or in Hin. destruct Hin as [Hin|[Hin|Hin]]; [|discriminate|exact Hin].
  apply in_split in Hin. destruct Hin as [p1 [p2 Ep]]. subst post.
  rewrite <- app_assoc in Hs. simpl in Hs.
  assert (Hle : (ev_arr (HGrant tw w) <= ev_arr (HPark ta a))%nat).
  { eapply hsorted_app; eauto. apply in_or_app. right. left. reflexivity. }
  simpl in Hle. lia.
Qed.

Record OInv (s : state) : Prop := {
  O_arr : forall t op id a, pk s t op id a -> (a < arrivals s)%nat;
  O_ord : forall t1 t2 o1 o2 i1 i2 a1 a2, pk s t1 o1 i1 a1 -> pk s t2 o2 i2 a2 ->
            ((a1 < a2)%nat <-> i1 < i2);
  O_hb : forall e, In e (hist s) -> (ev_arr e < arrivals s)%nat;
  O_pk : forall t a, (In (HPark t a) (hist s) /\ ~ In (HGrant t a) (hist s)) <->
                     exists op id, pk s t op id a;
  O_pki : forall t op id a, pk s t op id a -> In (HIssue t a op) (hist s);
  O_uniq : forall t t' a op op', In (HIssue t a op) (hist s) -> In (HIssue t' a op') (hist s) ->
             t = t' /\ op = op';
  O_sorted : hsorted (hist s);
  O_fifo : fifo_ok (hist s)
}.

(* ---- the state-level fact behind a grant --------------------------------------------------- *)

Definition grantable (s : state) (b : nat) (opb : optype) : Prop :=
  (exists tb ib, pk s tb opb ib b /\ ib < ubound (rs s)) \/
  (fast (rs s) opb = true /\ b = arrivals s).

Lemma adm_kind : forall s t op id nt a, RInv s ->
  nth_error (thr s) t = Some (Parked op id nt a) -> id < ubound (rs s) ->
  aop_of op = activeOp (rs s).
Proof.
  intros s t op id nt a I H Hlt.
  assert (Hop := I_op s I t _ H). cbn in Hop.
  assert (Hb : (id <? ubound (rs s)) = true) by (apply Z.ltb_lt; exact Hlt).
  rewrite Hb in Hop. specialize (Hop eq_refl). inversion Hop. reflexivity.
Qed.

Lemma adm_count : forall s t op id nt a, RInv s ->
  nth_error (thr s) t = Some (Parked op id nt a) -> id < ubound (rs s) ->
  1 <= activeCount (rs s).
Proof.
  intros s t op id nt a I H Hlt. rewrite (I_count s I).
  pose proof (countb_nonneg _ is_holding (thr s)).
  match goal with |- 1 <= _ + ?y => assert (1 <= y) end.
  { eapply countb_one; eauto. cbn. apply Z.ltb_lt. exact Hlt. }
  lia.
Qed.

Lemma grant_parked_rd : forall s b opb ta opa ia a, RInv s -> OInv s ->
  grantable s b opb -> pk s ta opa ia a -> (a < b)%nat -> opa = Rd /\ opb = Rd.
Proof.
  intros s b opb ta opa ia a I O G Ha Hlt.
  destruct G as [[tb [ib [Hb Hib]]]|[F Eb]].
  - assert (Hia : ia < ib) by (apply (O_ord s O _ _ _ _ _ _ _ _ Ha Hb); exact Hlt).
    assert (Hne : ta <> tb).
    { intro e. subst tb. destruct (pkl_fun _ _ _ _ _ _ _ _ Ha Hb) as [_ [_ e]]. lia. }
    destruct Ha as [nta Ha]. destruct Hb as [ntb Hb].
    assert (Ka := adm_kind s _ _ _ _ _ I Ha ltac:(lia)).
    assert (Kb := adm_kind s _ _ _ _ _ I Hb Hib).
    destruct (activeOp (rs s)) eqn:AO.
    + destruct opa; discriminate.
    + destruct opa, opb; try discriminate. auto.
    + exfalso. assert (C1 := I_wr s I AO). rewrite (I_count s I) in C1.
      pose proof (countb_nonneg _ is_holding (thr s)).
      match type of C1 with _ + ?y = 1 => assert (2 <= y) end.
      { eapply (countb_two _ _ _ ta tb); eauto; cbn; apply Z.ltb_lt; lia. }
      lia.
  - destruct Ha as [nta Ha].
    unfold fast in F. destruct (queue (rs s)) eqn:Q; [|discriminate].
    destruct (I_parked s I _ _ _ _ _ Ha) as [Hr He].
    assert (Hadm : ia < ubound (rs s)).
    { destruct (Z_lt_le_dec ia (ubound (rs s))) as [Hl|Hge]; [exact Hl|].
      specialize (He Hge). rewrite Q in He. discriminate. }
    assert (Ka := adm_kind s _ _ _ _ _ I Ha Hadm).
    assert (Kc := adm_count s _ _ _ _ _ I Ha Hadm).
    destruct (activeOp (rs s)) eqn:AO.
    + exfalso. assert (C0 : activeCount (rs s) = 0) by (apply (I_none s I); exact AO). lia.
    + destruct opb; [|discriminate]. destruct opa; [auto|discriminate].
    + discriminate.
Qed.

Lemma grant_star : forall s b opb, RInv s -> OInv s -> grantable s b opb ->
  forall ta a, In (HPark ta a) (hist s) -> (a < b)%nat -> ~ In (HGrant ta a) (hist s) ->
    In (HIssue ta a Rd) (hist s) /\ opb = Rd /\
    forall tw w, (a < w < b)%nat -> In (HPark tw w) (hist s) -> ~ In (HIssue tw w Wr) (hist s).
Proof.
  intros s b opb I O G ta a HP Hlt HNG.
  destruct (proj1 (O_pk s O ta a) (conj HP HNG)) as [opa [ia Ha]].
  destruct (grant_parked_rd s b opb ta opa ia a I O G Ha Hlt) as [Ea Eb]. subst opa.
  split; [eapply O_pki; eauto|]. split; [exact Eb|].
  intros tw w Hw HPw HIw.
  destruct (in_dec hev_eq_dec (HGrant tw w) (hist s)) as [Gw|NGw].
  - (* w was granted earlier: the induction hypothesis applied at that grant *)
    destruct (in_split _ _ Gw) as [post [pre E]].
    assert (HPa : In (HPark ta a) pre).
    { eapply park_before_grant; eauto. apply (O_sorted s O). lia. }
    assert (HNa : ~ In (HGrant ta a) pre).
    { intro X. apply HNG. rewrite E. apply in_or_app. right. right. exact X. }
    destruct (O_fifo s O post pre tw w E ta a HPa ltac:(lia) HNa) as [_ [X _]].
    assert (X' : In (HIssue tw w Rd) (hist s)).
    { rewrite E. apply in_or_app. right. right. exact X. }
    destruct (O_uniq s O _ _ _ _ _ HIw X') as [_ C]. discriminate.
  - (* w is still parked: its ticket is below the bound too, hence a read *)
    destruct (proj1 (O_pk s O tw w) (conj HPw NGw)) as [opw [iw Hpw]].
    assert (Iw := O_pki s O _ _ _ _ Hpw).
    destruct (O_uniq s O _ _ _ _ _ HIw Iw) as [_ C]. subst opw.
    destruct (grant_parked_rd s b opb tw Wr iw w I O G Hpw ltac:(lia)) as [C _]. discriminate.
Qed.

(* ---- OInv is inductive ---------------------------------------------------------------------- *)

Lemma oinv_init : forall n, OInv (init n).
Proof.
  intros n.
  assert (NP : forall t o i a, ~ pk (init n) t o i a).
  { intros t o i a [nt H]. unfold init in H. cbn [thr] in H.
    apply nth_error_In in H. apply repeat_spec in H. discriminate. }
  constructor; cbn [init hist arrivals]; intros.
  - exfalso. eapply NP; eauto.
  - exfalso. eapply NP; eauto.
  - contradiction.
  - split.
    + intros [[] _].
    + intros [op [id H]]. exfalso. eapply NP; eauto.
  - exfalso. eapply NP; eauto.
  - contradiction.
  - exact I.
  - intros post pre tb b E. destruct post; discriminate.
Qed.

Lemma oinv_other : forall s s', OInv s ->
  hist s' = hist s -> arrivals s' = arrivals s ->
  (forall t' o i a, pk s' t' o i a <-> pk s t' o i a) -> OInv s'.
Proof.
  intros s s' O Eh Ea Ep.
  constructor; rewrite ?Eh, ?Ea.
  - intros t op id a H. apply Ep in H. eapply O_arr; eauto.
  - intros t1 t2 o1 o2 i1 i2 a1 a2 H1 H2. apply Ep in H1. apply Ep in H2. eapply O_ord; eauto.
  - apply (O_hb s O).
  - intros t a. rewrite (O_pk s O t a). split; intros [op [id H]]; exists op, id; apply Ep; exact H.
  - intros t op id a H. apply Ep in H. eapply O_pki; eauto.
  - apply (O_uniq s O).
  - apply (O_sorted s O).
  - apply (O_fifo s O).
Qed.

Lemma oinv_park : forall s s' t op, RInv s -> OInv s ->
  nth_error (thr s) t = Some Idle -> fast (rs s) op = false ->
  hist s' = HPark t (arrivals s) :: HIssue t (arrivals s) op :: hist s ->
  arrivals s' = S (arrivals s) ->
  (forall t' o i a, pk s' t' o i a <->
     (pk s t' o i a \/ (t' = t /\ o = op /\ i = idCounter (rs s) /\ a = arrivals s))) ->
  OInv s'.
Proof.
  intros s s' t op I O Ht F Eh Ea Ep.
  assert (Hold : forall t' o i a, pk s t' o i a ->
            (a < arrivals s)%nat /\ i < idCounter (rs s)).
  { intros t' o i a H. split; [eapply O_arr; eauto|].
    destruct H as [nt H]. destruct (I_parked s I _ _ _ _ _ H) as [Hr _]. lia. }
  constructor; rewrite ?Eh, ?Ea.
  - intros t' o i a H. apply Ep in H. destruct H as [H|[_ [_ [_ H]]]].
    + apply Hold in H. lia.
    + lia.
  - intros t1 t2 o1 o2 i1 i2 a1 a2 H1 H2. apply Ep in H1. apply Ep in H2.
    destruct H1 as [H1|[_ [_ [E1 E1']]]]; destruct H2 as [H2|[_ [_ [E2 E2']]]].
    + eapply O_ord; eauto.
    + apply Hold in H1. subst. lia.
    + apply Hold in H2. subst. lia.
    + subst. lia.
  - intros e [E|[E|H]].
    + subst e. simpl. lia.
    + subst e. simpl. lia.
    + apply (O_hb s O) in H. lia.
  - intros t' a. split.
    + intros [[E|[E|HP]] HNG].
      * inversion E; subst. exists op, (idCounter (rs s)). apply Ep. right. auto.
      * discriminate.
      * assert (X : exists op' id', pk s t' op' id' a).
        { apply (O_pk s O). split; [exact HP|]. intro G. apply HNG. right. right. exact G. }
        destruct X as [op' [id' X]]. exists op', id'. apply Ep. left. exact X.
    + intros [op' [id' H]]. apply Ep in H. destruct H as [H|[E1 [_ [_ E2]]]].
      * assert (X : In (HPark t' a) (hist s) /\ ~ In (HGrant t' a) (hist s)).
        { apply (O_pk s O). eauto. }
        destruct X as [X1 X2]. split; [right; right; exact X1|].
        intros [E|[E|G]]; try discriminate. auto.
      * subst. split; [left; reflexivity|].
        intros [E|[E|G]]; try discriminate. apply (O_hb s O) in G. simpl in G. lia.
  - intros t' o i a H. apply Ep in H. destruct H as [H|[E1 [E2 [_ E3]]]].
    + right. right. eapply O_pki; eauto.
    + subst. right. left. reflexivity.
  - intros t1 t2 a o1 o2 [E|[E|H1]] [E'|[E'|H2]]; try discriminate.
    + inversion E; inversion E'; subst. auto.
    + inversion E; subst. apply (O_hb s O) in H2. simpl in H2. lia.
    + inversion E'; subst. apply (O_hb s O) in H1. simpl in H1. lia.
    + eapply O_uniq; eauto.
  - cbn [hsorted]. split; [|split].
    + intros _ e' [E|H]; [subst e'; simpl; lia|]. apply (O_hb s O) in H. simpl. lia.
    + intros _ e' H. apply (O_hb s O) in H. simpl. lia.
    + apply (O_sorted s O).
  - intros post pre tb b E.
    destruct post as [|e1 [|e2 post]]; simpl in E; inversion E.
    eapply (O_fifo s O); eauto.
Qed.

Lemma oinv_fast : forall s s' t op, RInv s -> OInv s ->
  nth_error (thr s) t = Some Idle -> fast (rs s) op = true ->
  hist s' = HGrant t (arrivals s) :: HIssue t (arrivals s) op :: hist s ->
  arrivals s' = S (arrivals s) ->
  (forall t' o i a, pk s' t' o i a <-> pk s t' o i a) ->
  OInv s'.
Proof.
  intros s s' t op I O Ht F Eh Ea Ep.
  constructor; rewrite ?Eh, ?Ea.
  - intros t' o i a H. apply Ep in H. apply (O_arr s O) in H. lia.
  - intros t1 t2 o1 o2 i1 i2 a1 a2 H1 H2. apply Ep in H1. apply Ep in H2. eapply O_ord; eauto.
  - intros e [E|[E|H]].
    + subst e. simpl. lia.
    + subst e. simpl. lia.
    + apply (O_hb s O) in H. lia.
  - intros t' a. split.
    + intros [[E|[E|HP]] HNG]; try discriminate.
      assert (X : exists op' id', pk s t' op' id' a).
      { apply (O_pk s O). split; [exact HP|]. intro G. apply HNG. right. right. exact G. }
      destruct X as [op' [id' X]]. exists op', id'. apply Ep. exact X.
    + intros [op' [id' H]]. apply Ep in H.
      assert (X : In (HPark t' a) (hist s) /\ ~ In (HGrant t' a) (hist s)).
      { apply (O_pk s O). eauto. }
      destruct X as [X1 X2]. split; [right; right; exact X1|].
      intros [E|[E|G]]; try discriminate; auto.
      inversion E; subst. apply (O_hb s O) in X1. simpl in X1. lia.
  - intros t' o i a H. apply Ep in H. right. right. eapply O_pki; eauto.
  - intros t1 t2 a o1 o2 [E|[E|H1]] [E'|[E'|H2]]; try discriminate.
    + inversion E; inversion E'; subst. auto.
    + inversion E; subst. apply (O_hb s O) in H2. simpl in H2. lia.
    + inversion E'; subst. apply (O_hb s O) in H1. simpl in H1. lia.
    + eapply O_uniq; eauto.
  - cbn [hsorted]. split; [|split].
    + intros X. discriminate.
    + intros _ e' H. apply (O_hb s O) in H. simpl. lia.
    + apply (O_sorted s O).
  - intros post pre tb b E.
    destruct post as [|e1 [|e2 post]]; simpl in E; inversion E.
    + subst. clear E. intros ta a HP Hlt HNG.
      assert (HP' : In (HPark ta a) (hist s)) by (destruct HP as [X|X]; [discriminate|exact X]).
      assert (HNG' : ~ In (HGrant ta a) (hist s)) by (intro X; apply HNG; right; exact X).
      assert (G : grantable s (arrivals s) op) by (right; auto).
      destruct (grant_star s _ _ I O G ta a HP' Hlt HNG') as [S1 [S2 S3]].
      split; [right; exact S1|]. split; [left; subst op; reflexivity|].
      intros tw w Hw [X|HPw]; [discriminate|]. intros [X|HIw].
      * inversion X. lia.
      * eapply S3; eauto.
    + eapply (O_fifo s O); eauto.
Qed.

Lemma oinv_wake : forall s s' t op id a, RInv s -> OInv s ->
  pk s t op id a -> id < ubound (rs s) ->
  hist s' = HGrant t a :: hist s ->
  arrivals s' = arrivals s ->
  (forall t' o i a', pk s' t' o i a' <-> (pk s t' o i a' /\ t' <> t)) ->
  OInv s'.
Proof.
  intros s s' t op id a I O Ht Hid Eh Ea Ep.
  constructor; rewrite ?Eh, ?Ea.
  - intros t' o i a' H. apply Ep in H. destruct H as [H _]. eapply O_arr; eauto.
  - intros t1 t2 o1 o2 i1 i2 a1 a2 H1 H2. apply Ep in H1. apply Ep in H2.
    destruct H1 as [H1 _]. destruct H2 as [H2 _]. eapply O_ord; eauto.
  - intros e [E|H].
    + subst e. simpl. eapply O_arr; eauto.
    + apply (O_hb s O) in H. exact H.
  - intros t' a'. split.
    + intros [[E|HP] HNG]; try discriminate.
      assert (X : exists op' id', pk s t' op' id' a').
      { apply (O_pk s O). split; [exact HP|]. intro G. apply HNG. right. exact G. }
      destruct X as [op' [id' X]]. exists op', id'. apply Ep. split; [exact X|].
      intro e. subst t'. destruct (pkl_fun _ _ _ _ _ _ _ _ X Ht) as [_ [_ e]]. subst a'.
      apply HNG. left. reflexivity.
    + intros [op' [id' H]]. apply Ep in H. destruct H as [H Hne].
      assert (X : In (HPark t' a') (hist s) /\ ~ In (HGrant t' a') (hist s)).
      { apply (O_pk s O). eauto. }
      destruct X as [X1 X2]. split; [right; exact X1|].
      intros [E|G]; auto. inversion E. congruence.
  - intros t' o i a' H. apply Ep in H. destruct H as [H _]. right. eapply O_pki; eauto.
  - intros t1 t2 a' o1 o2 [E|H1] [E'|H2]; try discriminate. eapply O_uniq; eauto.
  - cbn [hsorted]. split.
    + intros X. discriminate.
    + apply (O_sorted s O).
  - intros post pre tb b E.
    destruct post as [|e1 post]; simpl in E; inversion E.
    + subst. clear E. intros ta a' HP Hlt HNG.
      assert (G : grantable s b op) by (left; exists tb, id; auto).
      destruct (grant_star s _ _ I O G ta a' HP Hlt HNG) as [S1 [S2 S3]].
      split; [exact S1|]. split; [|exact S3].
      subst op. eapply O_pki; eauto.
    + eapply (O_fifo s O); eauto.
Qed.

Lemma oinv_step : forall s l s', RInv s -> OInv s -> step true s l = Some s' -> OInv s'.
Proof.
  intros s l s' I O H. apply step_cases in H. destruct H.
  - eapply oinv_fast; eauto.
  - eapply oinv_park; eauto.
  - eapply oinv_wake; eauto.
  - eapply oinv_other; eauto.
Qed.

Lemma oinv_run : forall ls s, RInv s -> OInv s -> OInv (run true s ls).
Proof.
  induction ls as [|l ls IH]; intros s I O; simpl.
  - exact O.
  - destruct (step true s l) as [s'|] eqn:E.
    + apply IH; [eapply rinv_step; eauto|eapply oinv_step; eauto].
    + apply IH; auto.
Qed.

Lemma oinv_reachable : forall n ls, OInv (run true (init n) ls).
Proof. intros n ls. apply oinv_run; [apply rinv_init|apply oinv_init]. Qed.

(* ---- the theorems --------------------------------------------------------------------------- *)

Lemma tickets_follow_arrival : forall n ls t1 t2 o1 o2 i1 i2 n1 n2 a1 a2,
  nth_error (thr (run true (init n) ls)) t1 = Some (Parked o1 i1 n1 a1) ->
  nth_error (thr (run true (init n) ls)) t2 = Some (Parked o2 i2 n2 a2) ->
  ((a1 < a2)%nat <-> i1 < i2).
Proof.
  intros n ls t1 t2 o1 o2 i1 i2 n1 n2 a1 a2 H1 H2.
  eapply (O_ord _ (oinv_reachable n ls) t1 t2 o1 o2).
  - exists n1. exact H1.
  - exists n2. exact H2.
Qed.

Lemma fifo_reachable : forall n ls, fifo_ok (hist (run true (init n) ls)).
Proof. intros n ls. apply (O_fifo _ (oinv_reachable n ls)). Qed.

Lemma upstream_overtaking : exists ls, ~ fifo_ok (hist (run false (init 3) ls)).
Proof.
  exists [Req 0%nat Wr; Req 1%nat Rd; Rel 0%nat; Notify 0%nat; Req 0%nat Rd; Rel 0%nat; Req 2%nat Wr].
  intro F.
  assert (E : hist (run false (init 3)
                [Req 0%nat Wr; Req 1%nat Rd; Rel 0%nat; Notify 0%nat; Req 0%nat Rd; Rel 0%nat; Req 2%nat Wr])
              = [HGrant 2 3; HIssue 2 3 Wr; HGrant 0 2; HIssue 0 2 Rd; HPark 1 1; HIssue 1 1 Rd;
                 HGrant 0 0; HIssue 0 0 Wr]%nat) by (vm_compute; reflexivity).
  rewrite E in F.
  destruct (F [] _ 2%nat 3%nat eq_refl 1%nat 1%nat) as [_ [X _]].
  - simpl. intuition.
  - lia.
  - simpl. intuition discriminate.
  - simpl in X. intuition discriminate.
Qed.

Lemma consecutive_state : forall s ta tb ia ib na nb a b, RInv s -> OInv s ->
  nth_error (thr s) ta = Some (Parked Rd ia na a) ->
  nth_error (thr s) tb = Some (Parked Rd ib nb b) ->
  (a < b)%nat ->
  (forall tw iw nw w, nth_error (thr s) tw = Some (Parked Wr iw nw w) -> ~ (a < w < b)%nat) ->
  (ia < ubound (rs s) <-> ib < ubound (rs s)).
Proof.
  intros s ta tb ia ib na nb a b I O Ha Hb Hlt HW.
  assert (Pa : pk s ta Rd ia a) by (exists na; exact Ha).
  assert (Pb : pk s tb Rd ib b) by (exists nb; exact Hb).
  assert (Hi : ia < ib) by (apply (O_ord s O _ _ _ _ _ _ _ _ Pa Pb); exact Hlt).
  split; [|lia].
  intros Hadm.
  destruct (Z_lt_le_dec ib (ubound (rs s))) as [Hl|Hge]; [exact Hl|]. exfalso.
  destruct (I_parked s I _ _ _ _ _ Hb) as [_ He]. specialize (He Hge).
  assert (Ka := adm_kind s _ _ _ _ _ I Ha Hadm). cbn in Ka.
  pose proof (I_chain s I) as Hch. pose proof (I_shape s I) as Hsh.
  destruct (queue (rs s)) as [|[ty b0] q'] eqn:Q; [discriminate|].
  destruct ty.
  - assert (X := I_head s I _ _ Q). congruence.
  - cbn [chain] in Hch. cbn [shape_ok] in Hsh. destruct Hch as [Hc1 Hc2]. destruct Hsh as [Hs1 _].
    apply chain_le in Hc2.
    assert (Hcnt := I_cnt s I (ubound (rs s) + 1) ltac:(lia)).
    assert (Hpos : 0 < countb (is_waiting_below (ubound (rs s)) (ubound (rs s) + 1)) (thr s)) by lia.
    destruct (countb_pos_ex _ _ _ Hpos) as [tw [st [Hst Hf]]].
    destruct st as [|opw iw nw w| |]; try discriminate.
    cbn in Hf. apply andb_prop in Hf. destruct Hf as [Hf1 Hf2].
    apply Z.leb_le in Hf1. apply Z.ltb_lt in Hf2.
    assert (Eiw : iw = ubound (rs s)) by lia.
    destruct (I_parked s I _ _ _ _ _ Hst) as [_ Hew]. specialize (Hew Hf1).
    rewrite Q in Hew. cbn [entry_type] in Hew.
    assert (L1 : (iw <? b0) = true) by (apply Z.ltb_lt; lia).
    rewrite L1 in Hew. inversion Hew. subst opw.
    cbn [entry_type] in He.
    destruct (ib <? b0) eqn:L2; [discriminate|]. apply Z.ltb_ge in L2.
    assert (Pw : pk s tw Wr iw w) by (exists nw; exact Hst).
    assert (A1 : (a < w)%nat) by (apply (O_ord s O _ _ _ _ _ _ _ _ Pa Pw); lia).
    assert (A2 : (w < b)%nat) by (apply (O_ord s O _ _ _ _ _ _ _ _ Pw Pb); lia).
    apply (HW _ _ _ _ Hst). lia.
Qed.

Lemma consecutive_readers_together : forall n ls ta tb ia ib na nb a b,
  nth_error (thr (run true (init n) ls)) ta = Some (Parked Rd ia na a) ->
  nth_error (thr (run true (init n) ls)) tb = Some (Parked Rd ib nb b) ->
  (a < b)%nat ->
  (forall tw iw nw w, nth_error (thr (run true (init n) ls)) tw = Some (Parked Wr iw nw w) -> ~ (a < w < b)%nat) ->
  (ia < ubound (rs (run true (init n) ls)) <-> ib < ubound (rs (run true (init n) ls))).
Proof.
  intros n ls ta tb ia ib na nb a b Ha Hb Hlt HW.
  eapply consecutive_state; eauto.
  - apply rinv_reachable.
  - apply oinv_reachable.
Qed.
