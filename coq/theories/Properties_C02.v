(* Properties_C02.v — rwp::Resource: every request is eventually granted; idle again after.
   Only statements, each closed by [exact <lemma of ResourceProofs>], and Print Assumptions.
   Closed system: every thread runs a finite program of lock/unlock pairs (cstate).
   Liveness = deadlock freedom + a strictly decreasing variant; fairness of the scheduler and
   of the condition variable (an enabled step is eventually taken; no infinite run of
   spurious wake-ups) is assumed, not modelled. *)
From Coq Require Import List ZArith Bool Lia.
From Tulz Require Import RaceModel AtomicSections.
From TulzGen Require Import Accesses.
From Tulz Require Import Common ResourceModel ResourceInv ResourceProofs.
Import ListNotations.
Local Open Scope Z_scope.

(* no deadlock, no lost wake-up: while some thread has not finished its program, some
   non-spurious step (a lock() call, the wake-up of a notified waiter, an unlock(), a
   notify_all()) is enabled *)
Theorem C02_no_deadlock : forall ps ls c,
  cexec true (cinit ps) ls = Some c -> finished c = false -> can_progress true c = true.
Proof. exact no_deadlock. Qed.
Print Assumptions C02_no_deadlock.

(* every non-spurious step strictly decreases a non-negative measure *)
Theorem C02_variant : forall ps ls c l c',
  cexec true (cinit ps) ls = Some c -> cstep true c l = Some c' -> is_spurious l = false ->
  0 <= measure c' < measure c.
Proof. exact variant_decreases. Qed.
Print Assumptions C02_variant.

(* hence the number of non-spurious steps of any execution is bounded by the initial measure
   plus the number of spurious wake-ups it contains (each spurious wake-up pays for at most
   one extra re-check of a wait predicate): an execution with finitely many spurious wake-ups
   that keeps taking enabled steps ends with all programs finished, i.e. every lock*() call
   has returned *)
Theorem C02_bounded : forall ps ls c,
  cexec true (cinit ps) ls = Some c ->
  Zlen (filter (fun l => negb (is_spurious l)) ls) <= measure (cinit ps) + Zlen (filter is_spurious ls).
Proof. exact nonspurious_bounded. Qed.
Print Assumptions C02_bounded.

(* after all locks have been released the Resource is back in its initial state ... *)
Theorem C02_idle_again : forall n ls, all_idle (run true (init n) ls) -> rs (run true (init n) ls) = r0.
Proof. exact idle_again. Qed.
Print Assumptions C02_idle_again.

(* ... and grants the next read or write request without waiting *)
Theorem C02_idle_grants : forall n ls t op, (t < n)%nat -> all_idle (run true (init n) ls) ->
  exists s', step true (run true (init n) ls) (Req t op) = Some s' /\ nth_error (thr s') t = Some (Holding op).
Proof. exact idle_grants. Qed.
Print Assumptions C02_idle_grants.

(* The pinned upstream code loses a wake-up: a reachable unfinished state without any enabled
   non-spurious step (thread 1 parked forever, lock idle). *)
Theorem C02_upstream_refuted : exists ps ls c,
  cexec false (cinit ps) ls = Some c /\ finished c = false /\ can_progress false c = false.
Proof. exact upstream_lost_wakeup. Qed.
Print Assumptions C02_upstream_refuted.

Example C02_nonvacuous :
  exists c, cexec true (cinit [[Wr; Rd]; [Rd]]) [Req 0 Wr; Req 1 Rd; Rel 0; Notify 0; Req 0 Rd; Rel 0] = Some c
            /\ finished c = false /\ can_progress true c = true /\ measure c = 4.
Proof. eexists. vm_compute. repeat split; reflexivity. Qed.

(* The premise of the atomic-step model, checked on the access rows the translator extracted from the
   CURRENT source (TulzGen.Accesses, regenerated on every run): every access to the Resource's state in
   Resource::lock / Resource::unlock (and the helpers they call) is made holding m_mutex, hence no two
   threads are ever inside those sections at once (AtomicSections.v). *)
Theorem C02_sections_atomic : forall n os t1 t2 a1 a2,
  t1 <> t2 -> In a1 TulzGen.Accesses.extracted_accesses -> In a2 TulzGen.Accesses.extracted_accesses ->
  RaceModel.a_comp a1 = resource_component -> RaceModel.a_comp a2 = resource_component ->
  RaceModel.can_perform (RaceModel.lrun (RaceModel.linit n) os) t1 a1 ->
  RaceModel.can_perform (RaceModel.lrun (RaceModel.linit n) os) t2 a2 -> False.
Proof. apply (AtomicSections.sections_exclusive resource_component resource_mutex). vm_compute. reflexivity. Qed.
Print Assumptions C02_sections_atomic.
