From Coq Require Import ZArith.
From Tulz Require Import ResourceModel.
Theorem placeholder_C02 : 1 = 1. Proof. reflexivity. Qed.
Print Assumptions placeholder_C02.
