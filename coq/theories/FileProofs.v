(* FileProofs.v — proofs of the C17 lemmas about the File model (FileModel.v, FileSpec.v). *)
From Coq Require Import List ZArith Bool Lia.
From Tulz Require Import Common FileModel FileSpec.
Import ListNotations.
Local Open Scope Z_scope.

(* ---- lengths ----------------------------------------------------------------------------------- *)

Lemma Zlen_to_nat : forall A (l : list A), Z.to_nat (Zlen l) = length l.
Proof. intros. unfold Zlen. apply Nat2Z.id. Qed.

Lemma Zlen_nonneg : forall A (l : list A), 0 <= Zlen l.
Proof. intros. unfold Zlen. lia. Qed.

Lemma Zlen_app : forall A (l m : list A), Zlen (l ++ m) = Zlen l + Zlen m.
Proof. intros. unfold Zlen. rewrite app_length. lia. Qed.

(* ---- the disk ---------------------------------------------------------------------------------- *)

Lemma find_map_same : forall (d : disk) n x,
  existsb (fun e : Z * fentry => fst e =? n) d = true ->
  find (fun e : Z * fentry => fst e =? n) (map (fun e : Z * fentry => if fst e =? n then (n, x) else e) d)
  = Some (n, x).
Proof.
  induction d as [|e d IH]; intros n x H; simpl in *.
  - discriminate.
  - destruct (fst e =? n) eqn:E; simpl in *.
    + rewrite Z.eqb_refl. reflexivity.
    + rewrite E. apply IH. exact H.
Qed.

Lemma find_app_absent : forall (d : disk) n x,
  existsb (fun e : Z * fentry => fst e =? n) d = false ->
  find (fun e : Z * fentry => fst e =? n) (d ++ [(n, x)]) = Some (n, x).
Proof.
  induction d as [|e d IH]; intros n x H; simpl in *.
  - rewrite Z.eqb_refl. reflexivity.
  - destruct (fst e =? n) eqn:E; simpl in *.
    + discriminate.
    + apply IH. exact H.
Qed.

Lemma dfind_dset_same : forall d n x, dfind (dset d n x) n = Some x.
Proof.
  intros d n x. unfold dfind, dset.
  destruct (existsb (fun e : Z * fentry => fst e =? n) d) eqn:E.
  - rewrite find_map_same by exact E. reflexivity.
  - rewrite find_app_absent by exact E. reflexivity.
Qed.

Lemma content_of_dfind : forall d n b, dfind d n = Some (EFile b) -> content d n = b.
Proof. intros d n b H. unfold content. rewrite H. reflexivity. Qed.

Lemma content_dset_same : forall d n b, content (dset d n (EFile b)) n = b.
Proof. intros. apply content_of_dfind. apply dfind_dset_same. Qed.

(* ---- size() ------------------------------------------------------------------------------------ *)

Lemma file_size_eq : forall d st, 0 <= s_pos st ->
  file_size d st = (mkStream (s_name st) (s_mode st) (s_pos st) false, Zlen (content d (s_name st))).
Proof.
  intros d [n m p e] Hp. simpl in Hp.
  unfold file_size, fseek. simpl.
  pose proof (Zlen_nonneg _ (content d n)) as Hl.
  destruct (Zlen (content d n) + 0 <? 0) eqn:E1; [apply Z.ltb_lt in E1; lia|].
  simpl.
  destruct (p <? 0) eqn:E2; [apply Z.ltb_lt in E2; lia|].
  rewrite Z.add_0_r. reflexivity.
Qed.

Lemma size_spec : forall d st, 0 <= s_pos st ->
  snd (file_size d st) = Zlen (content d (s_name st)) /\ s_pos (fst (file_size d st)) = s_pos st.
Proof.
  intros d st Hp. rewrite file_size_eq by exact Hp. simpl. split; reflexivity.
Qed.

(* ---- read() ------------------------------------------------------------------------------------ *)

Lemma count_loop_spec : forall fuel d st acc,
  s_eof st = false ->
  0 <= s_pos st <= Zlen (content d (s_name st)) ->
  Z.of_nat fuel > Zlen (content d (s_name st)) - s_pos st ->
  exists st', count_loop fuel d st acc = Some (st', acc + (Zlen (content d (s_name st)) - s_pos st))
              /\ s_name st' = s_name st /\ s_mode st' = s_mode st.
Proof.
  induction fuel as [|f IH]; intros d [n m p e] acc He Hp Hf; simpl in *.
  - lia.
  - subst e. unfold fgetc. simpl.
    destruct ((0 <=? p) && (p <? Zlen (content d n))) eqn:E; simpl.
    + apply andb_true_iff in E. destruct E as [E1 E2].
      apply Z.leb_le in E1. apply Z.ltb_lt in E2.
      destruct (IH d (mkStream n m (p + 1) false) (acc + 1)) as [st' [H1 [H2 H3]]]; simpl; try reflexivity; try lia.
      simpl in *. exists st'. rewrite H1. split; [|split; assumption].
      f_equal. f_equal. lia.
    + apply andb_false_iff in E.
      assert (p = Zlen (content d n)) as Hpe.
      { destruct E as [E|E]; [apply Z.leb_gt in E|apply Z.ltb_ge in E]; lia. }
      exists (mkStream n m p true). split; [|split; reflexivity].
      f_equal. f_equal. lia.
Qed.

Lemma fread_all : forall d n m e,
  fread d (mkStream n m 0 e) (Zlen (content d n)) = (mkStream n m (Zlen (content d n)) e, content d n).
Proof.
  intros d n m e. unfold fread. simpl.
  pose proof (Zlen_nonneg _ (content d n)) as Hl.
  rewrite Z.sub_0_r.
  rewrite (Z.max_r 0 (Zlen (content d n))) by lia.
  rewrite Z.min_id. rewrite Z.ltb_irrefl. rewrite orb_false_r.
  rewrite Zlen_to_nat. rewrite firstn_all. reflexivity.
Qed.

Lemma read_all_spec : forall d st,
  is_write_mode (s_mode st) = false -> 0 <= s_pos st ->
  exists st', file_read_all d st = Some (st', content d (s_name st)) /\ s_pos st' = Zlen (content d (s_name st)).
Proof.
  intros d [n m p e] Hm Hp. simpl in *.
  unfold file_read_all. unfold fseek at 1.
  cbn [s_pos s_name s_mode s_eof]. change (0 =? 0) with true. cbv iota. change (0 + 0) with 0.
  change (0 <? 0) with false. cbv iota.
  destruct (is_text m) eqn:Ht.
  - pose proof (Zlen_nonneg _ (content d n)) as Hl.
    destruct (count_loop_spec (S (length (content d n))) d (mkStream n m 0 false) 0) as [st1 [H1 [H2 H3]]].
    + reflexivity.
    + simpl. lia.
    + simpl s_name. simpl s_pos. unfold Zlen. lia.
    + simpl s_name in *. simpl s_pos in *. simpl s_mode in *.
      rewrite H1. unfold fseek. simpl. rewrite H2, H3.
      rewrite Z.sub_0_r. rewrite fread_all.
      eexists. split; reflexivity.
  - rewrite file_size_eq by (simpl; lia). simpl.
    rewrite fread_all. eexists. split; reflexivity.
Qed.

(* ---- write sessions ---------------------------------------------------------------------------- *)

(* the invariant of a write session on file [n] whose current bytes are [c] *)
Definition winv (d : disk) (st : stream) (n : Z) (c : list Z) : Prop :=
  s_name st = n /\ dfind d n = Some (EFile c) /\ (is_append (s_mode st) = true \/ s_pos st = Zlen c).

Lemma fwrite_winv : forall d st n c data,
  winv d st n c -> winv (fst (fwrite d st data)) (snd (fwrite d st data)) n (c ++ data).
Proof.
  intros d [n0 m p e] n c data [Hn [Hd Hp]]. simpl in *. subst n0.
  destruct data as [|x data].
  - simpl. rewrite app_nil_r. split; [reflexivity|]. split; assumption.
  - unfold fwrite. simpl s_name. simpl s_mode. simpl s_pos. simpl s_eof.
    rewrite (content_of_dfind _ _ _ Hd).
    assert ((if is_append m then Zlen c else p) = Zlen c) as Hat.
    { destruct Hp as [Hp|Hp]; [rewrite Hp; reflexivity|]. destruct (is_append m); auto. }
    rewrite Hat. cbv zeta.
    remember (x :: data) as dt.
    rewrite Z.sub_diag. simpl repeat. rewrite app_nil_r.
    rewrite Zlen_to_nat. rewrite firstn_all.
    rewrite skipn_all2.
    2:{ pose proof (Zlen_nonneg _ dt). unfold Zlen in *. lia. }
    rewrite app_nil_r.
    destruct dt as [|y dt']; [discriminate|].
    simpl fst. simpl snd. split; [reflexivity|]. split.
    + apply dfind_dset_same.
    + right. simpl. rewrite Zlen_app. reflexivity.
Qed.

Lemma fold_winv : forall chunks d st n c,
  winv d st n c ->
  let r := fold_left (fun (ds : disk * stream) ch => fwrite (fst ds) (snd ds) ch) chunks (d, st) in
  winv (fst r) (snd r) n (c ++ concat chunks).
Proof.
  induction chunks as [|ch chunks IH]; intros d st n c H; simpl.
  - rewrite app_nil_r. exact H.
  - rewrite app_assoc.
    destruct (fwrite d st ch) as [d1 st1] eqn:E.
    apply IH.
    pose proof (fwrite_winv d st n c ch H) as H'. rewrite E in H'. exact H'.
Qed.

(* opening in a write mode a path that is not a directory *)
Lemma open_write_winv : forall d n m,
  is_dir d n = false -> is_write_mode m = true ->
  exists d0 st, file_open d n m = inr (d0, Some st) /\
    winv d0 st n (if is_append m then content d n else []).
Proof.
  intros d n m Hdir Hm. unfold is_dir in Hdir. unfold file_open, content.
  destruct (dfind d n) as [[b|]|] eqn:Hf; try discriminate; simpl.
  - destruct m; try discriminate; simpl.
    + do 2 eexists. split; [reflexivity|]. split; [reflexivity|]. split; [apply dfind_dset_same|right; reflexivity].
    + do 2 eexists. split; [reflexivity|]. split; [reflexivity|]. split; [apply dfind_dset_same|right; reflexivity].
    + rewrite Hf. do 2 eexists. split; [reflexivity|]. split; [reflexivity|]. split; [exact Hf|left; reflexivity].
    + rewrite Hf. do 2 eexists. split; [reflexivity|]. split; [reflexivity|]. split; [exact Hf|left; reflexivity].
  - rewrite Hm. simpl.
    destruct m; try discriminate; simpl.
    + do 2 eexists. split; [reflexivity|]. split; [reflexivity|]. split; [apply dfind_dset_same|right; reflexivity].
    + do 2 eexists. split; [reflexivity|]. split; [reflexivity|]. split; [apply dfind_dset_same|right; reflexivity].
    + rewrite Hf. do 2 eexists. split; [reflexivity|]. split; [reflexivity|]. split; [apply dfind_dset_same|left; reflexivity].
    + rewrite Hf. do 2 eexists. split; [reflexivity|]. split; [reflexivity|]. split; [apply dfind_dset_same|left; reflexivity].
Qed.

Lemma write_session_dfind : forall d n m chunks,
  is_dir d n = false -> is_write_mode m = true ->
  exists d', write_session d n m chunks = Some d' /\
    dfind d' n = Some (EFile ((if is_append m then content d n else []) ++ concat chunks)).
Proof.
  intros d n m chunks Hdir Hm.
  destruct (open_write_winv d n m Hdir Hm) as [d0 [st [Ho Hw]]].
  unfold write_session. rewrite Ho.
  eexists. split; [reflexivity|].
  pose proof (fold_winv chunks d0 st n _ Hw) as H. simpl in H.
  destruct H as [_ [H _]]. exact H.
Qed.

Lemma read_back_of_dfind : forall d n rm c,
  (rm = Read \/ rm = ReadText) -> dfind d n = Some (EFile c) -> read_back d n rm = Some c.
Proof.
  intros d n rm c Hrm Hf.
  assert (file_open d n rm = inr (d, Some (mkStream n rm 0 false))) as Ho.
  { unfold file_open. rewrite Hf. simpl. destruct Hrm; subst rm; simpl; rewrite Hf; reflexivity. }
  unfold read_back. rewrite Ho.
  destruct (read_all_spec d (mkStream n rm 0 false)) as [st' [H _]].
  - destruct Hrm; subst rm; reflexivity.
  - simpl. lia.
  - rewrite H. simpl. rewrite (content_of_dfind _ _ _ Hf). reflexivity.
Qed.

Lemma roundtrip_write : forall d n chunks wm rm d',
  is_dir d n = false -> (wm = Write \/ wm = WriteText) -> (rm = Read \/ rm = ReadText) ->
  write_session d n wm chunks = Some d' ->
  read_back d' n rm = Some (concat chunks).
Proof.
  intros d n chunks wm rm d' Hdir Hwm Hrm Hs.
  destruct (write_session_dfind d n wm chunks Hdir) as [d1 [H1 H2]].
  - destruct Hwm; subst wm; reflexivity.
  - rewrite H1 in Hs. inversion Hs; subst d1.
    apply read_back_of_dfind; [exact Hrm|].
    rewrite H2. destruct Hwm; subst wm; reflexivity.
Qed.

Lemma roundtrip_append : forall d n chunks am rm d',
  is_dir d n = false -> (am = Append \/ am = AppendText) -> (rm = Read \/ rm = ReadText) ->
  write_session d n am chunks = Some d' ->
  read_back d' n rm = Some (content d n ++ concat chunks).
Proof.
  intros d n chunks am rm d' Hdir Ham Hrm Hs.
  destruct (write_session_dfind d n am chunks Hdir) as [d1 [H1 H2]].
  - destruct Ham; subst am; reflexivity.
  - rewrite H1 in Hs. inversion Hs; subst d1.
    apply read_back_of_dfind; [exact Hrm|].
    rewrite H2. destruct Ham; subst am; reflexivity.
Qed.

Lemma write_session_succeeds : forall d n m chunks,
  is_dir d n = false -> is_write_mode m = true -> exists d', write_session d n m chunks = Some d'.
Proof.
  intros d n m chunks Hdir Hm.
  destruct (write_session_dfind d n m chunks Hdir Hm) as [d' [H _]].
  exists d'. exact H.
Qed.

Lemma open_errors : forall d n m,
  (dfind d n = None -> is_write_mode m = false -> file_open d n m = inl NotFound) /\
  (dfind d n = Some EDir -> file_open d n m = inl NotFile).
Proof.
  intros d n m. split.
  - intros Hf Hm. unfold file_open. rewrite Hf, Hm. reflexivity.
  - intros Hf. unfold file_open. rewrite Hf. reflexivity.
Qed.

(* ---- frame: a write session touches no other path -------------------------------------------- *)

Lemma dfind_dset_other : forall d n x n', n' <> n -> dfind (dset d n x) n' = dfind d n'.
Proof.
  intros d n x n' Hne. unfold dfind, dset.
  assert (Hk : (n =? n') = false) by (apply Z.eqb_neq; congruence).
  destruct (existsb (fun e => fst e =? n) d).
  - induction d as [|[k y] d IH]; [reflexivity|]. cbn [map fst].
    destruct (k =? n) eqn:Ek.
    + apply Z.eqb_eq in Ek. subst k. cbn [find fst]. rewrite Hk. exact IH.
    + cbn [find fst]. destruct (k =? n'); [reflexivity|exact IH].
  - induction d as [|[k y] d IH].
    + cbn [app find fst]. rewrite Hk. reflexivity.
    + cbn [app find fst]. destruct (k =? n'); [reflexivity|exact IH].
Qed.

Lemma fwrite_frame : forall d st data n',
  n' <> s_name st ->
  dfind (fst (fwrite d st data)) n' = dfind d n' /\ s_name (snd (fwrite d st data)) = s_name st.
Proof.
  intros d st data n' Hne. unfold fwrite.
  destruct data as [|x data]; [split; reflexivity|].
  cbn [fst snd s_name]. split; [apply dfind_dset_other; exact Hne|reflexivity].
Qed.

Lemma fold_frame : forall chunks d st n',
  n' <> s_name st ->
  dfind (fst (fold_left (fun (ds : disk * stream) ch => fwrite (fst ds) (snd ds) ch) chunks (d, st))) n' = dfind d n'.
Proof.
  induction chunks as [|ch chunks IH]; intros d st n' Hne; [reflexivity|].
  cbn [fold_left fst snd].
  destruct (fwrite_frame d st ch n' Hne) as [Hd Hn].
  destruct (fwrite d st ch) as [d1 st1]. cbn [fst snd] in *.
  rewrite IH; [exact Hd|rewrite Hn; exact Hne].
Qed.

Lemma file_open_frame : forall d n m d' st n',
  file_open d n m = inr (d', Some st) -> n' <> n ->
  s_name st = n /\ dfind d' n' = dfind d n'.
Proof.
  intros d n m d' st n' H Hne. unfold file_open in H.
  destruct (negb _ && negb _); [discriminate|].
  destruct (_ && _); [discriminate|].
  destruct (fopen d n m) as [[d1 st1]|] eqn:F; [|discriminate].
  inversion H; subst d1 st1. clear H.
  unfold fopen in F.
  destruct m.
  all: try (destruct (dfind d n) as [[b|]|]; try discriminate; inversion F; subst; split; reflexivity).
  all: try (inversion F; subst; split; [reflexivity|apply dfind_dset_other; exact Hne]).
  all: destruct (dfind d n) as [[b|]|]; inversion F; subst; split; try reflexivity;
       apply dfind_dset_other; exact Hne.
Qed.

Lemma write_session_frame : forall d n m chunks d' n',
  write_session d n m chunks = Some d' -> n' <> n -> dfind d' n' = dfind d n'.
Proof.
  intros d n m chunks d' n' H Hne. unfold write_session in H.
  destruct (file_open d n m) as [e|[d0 [st|]]] eqn:O; try discriminate.
  inversion H; subst d'. clear H.
  destruct (file_open_frame _ _ _ _ _ n' O Hne) as [Hn Hd].
  rewrite fold_frame; [exact Hd|rewrite Hn; exact Hne].
Qed.
