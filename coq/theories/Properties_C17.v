(* Properties_C17.v — File round-trips bytes exactly and reports sizes and errors truthfully.
   Only statements, each closed by [exact <lemma of FileProofs>], and Print Assumptions.
   Partial by nature: stdio and the kernel are modelled (FileModel.v); the theorems are about
   File.cpp's logic under that model, for byte strings of any length. *)
From Coq Require Import List ZArith Bool Lia.
From Tulz Require Import Common FileModel FileSpec FileProofs.
Import ListNotations.
Local Open Scope Z_scope.

(* read() on a stream opened for reading returns exactly the bytes of the file, from whatever
   position it is called, in binary and in text mode (the fgetc-until-feof count and size() both
   equal the length; the counting loop never runs out of fuel) *)
Theorem C17_read_all : forall d st,
  is_write_mode (s_mode st) = false -> 0 <= s_pos st ->
  exists st', file_read_all d st = Some (st', content d (s_name st)) /\ s_pos st' = Zlen (content d (s_name st)).
Proof. exact read_all_spec. Qed.
Print Assumptions C17_read_all.

(* size() equals the number of bytes in the file and leaves the position unchanged, for every
   position (also past the end), in every mode *)
Theorem C17_size : forall d st, 0 <= s_pos st ->
  snd (file_size d st) = Zlen (content d (s_name st)) /\ s_pos (fst (file_size d st)) = s_pos st.
Proof. exact size_spec. Qed.
Print Assumptions C17_size.

(* write modes truncate: any split of a byte string into successive write calls, written in
   Write or WriteText mode and closed, is read back identically in Read and ReadText mode *)
Theorem C17_roundtrip_write : forall d n chunks wm rm d',
  is_dir d n = false -> (wm = Write \/ wm = WriteText) -> (rm = Read \/ rm = ReadText) ->
  write_session d n wm chunks = Some d' ->
  read_back d' n rm = Some (concat chunks).
Proof. exact roundtrip_write. Qed.
Print Assumptions C17_roundtrip_write.

(* append modes add after the existing content *)
Theorem C17_roundtrip_append : forall d n chunks am rm d',
  is_dir d n = false -> (am = Append \/ am = AppendText) -> (rm = Read \/ rm = ReadText) ->
  write_session d n am chunks = Some d' ->
  read_back d' n rm = Some (content d n ++ concat chunks).
Proof. exact roundtrip_append. Qed.
Print Assumptions C17_roundtrip_append.

(* a write session on a path that is not a directory always succeeds (the premise above is satisfiable) *)
Theorem C17_write_session_succeeds : forall d n m chunks,
  is_dir d n = false -> is_write_mode m = true -> exists d', write_session d n m chunks = Some d'.
Proof. exact write_session_succeeds. Qed.
Print Assumptions C17_write_session_succeeds.

(* ... and touches nothing else: every other path keeps its entry (file bytes or directory) through a whole write
   session — open (truncation / creation), every write call, close *)
Theorem C17_write_touches_only_its_path : forall d n m chunks d' n',
  write_session d n m chunks = Some d' -> n' <> n -> dfind d' n' = dfind d n'.
Proof. exact write_session_frame. Qed.
Print Assumptions C17_write_touches_only_its_path.

(* opening a missing file for reading fails with NotFound; opening a directory fails with NotFile in every mode *)
Theorem C17_open_errors : forall d n m,
  (dfind d n = None -> is_write_mode m = false -> file_open d n m = inl NotFound) /\
  (dfind d n = Some EDir -> file_open d n m = inl NotFile).
Proof. exact open_errors. Qed.
Print Assumptions C17_open_errors.

Example C17_nonvacuous :
  option_map (fun d => (content d 3, read_back d 3 ReadText))
    (match write_session [(3, EFile [1; 2])] 3 Append [[0; 10]; []; [255; 13; 10]] with
     | Some d1 => write_session d1 3 AppendText [[26]] | None => None end)
  = Some ([1; 2; 0; 10; 255; 13; 10; 26], Some [1; 2; 0; 10; 255; 13; 10; 26]).
Proof. vm_compute. reflexivity. Qed.
