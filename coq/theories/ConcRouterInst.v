(* ConcRouterInst.v — the concurrent-router model instantiated with the lock table regenerated from the source. *)
From Coq Require Import List ZArith.
From Tulz Require Import Common ConcRouterModel.
From TulzGen Require Import LockTable.
Definition conc_run (case : list (list Z)) : list (list Z) := conc_run_with lock_table case.
