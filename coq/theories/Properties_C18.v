(* Properties_C18.v — Path agrees with the filesystem and its string operations are consistent.
   Only statements, each closed by [exact <lemma of PathProofs>], and Print Assumptions.
   Partial by nature: opendir / readdir / fopen / chdir are modelled by a tree (PathModel.v);
   the theorems are about Path.cpp's logic under that model. *)
From Coq Require Import List ZArith Bool Lia.
From Tulz Require Import Common PathModel PathProofs.
Import ListNotations.
Local Open Scope Z_scope.

(* string operations, for ALL byte strings: for a non-empty directory d and a non-empty name n
   without '/' and '\', the name of join(d, n) is n ... *)
Theorem C18_name_of_join : forall d n, d <> [] -> n <> [] -> sep_free n = true ->
  get_path_name (join d n) = n.
Proof. exact name_of_join. Qed.
Print Assumptions C18_name_of_join.

(* ... and its parent is d without one trailing '/' (and getParentDirectory does not throw) *)
Theorem C18_parent_of_join : forall d n, d <> [] -> n <> [] -> sep_free n = true ->
  get_parent (join d n) = Some (strip_trailing d).
Proof. exact parent_of_join. Qed.
Print Assumptions C18_parent_of_join.

(* joining an absolute path, or joining onto the empty path, yields that path *)
Theorem C18_join_absolute : forall p q, is_absolute q = true \/ p = [] -> join p q = q.
Proof. exact join_absolute. Qed.
Print Assumptions C18_join_absolute.

(* otherwise join keeps both operands verbatim, with exactly one '/' between them unless the left one ends in '/' *)
Theorem C18_join_shape : forall p q, p <> [] -> is_absolute q = false ->
  join p q = p ++ (if last p 0 =? SLASH then [] else [SLASH]) ++ q.
Proof. exact join_shape. Qed.
Print Assumptions C18_join_shape.

(* no bytes invented: for EVERY string the name is a suffix of it and the parent directory a prefix of it *)
Theorem C18_name_is_suffix : forall s, exists pre, s = pre ++ get_path_name s.
Proof. exact name_is_suffix. Qed.
Print Assumptions C18_name_is_suffix.

Theorem C18_parent_is_prefix : forall s d, get_parent s = Some d -> exists rest, s = d ++ rest.
Proof. exact parent_is_prefix. Qed.
Print Assumptions C18_parent_is_prefix.

(* a bare (separator-free, possibly empty) name is its own name and has the empty parent *)
Theorem C18_bare_name : forall n, sep_free n = true -> get_path_name n = n /\ get_parent n = Some [].
Proof. exact bare_name. Qed.
Print Assumptions C18_bare_name.

(* totality: getParentDirectory never erases beyond the end of the string, whatever the input
   (empty, "/", "//", "a/", only separators, ...) *)
Theorem C18_parent_total : forall s, get_parent s <> None.
Proof. exact parent_total. Qed.
Print Assumptions C18_parent_total.

(* filesystem model: size() of an existing path — computed as the code does, by listing the
   children and recursing through join(this, child) with fresh look-ups — is the total size of
   the regular files beneath it, for every well-formed tree *)
Theorem C18_size_is_total : forall fs p n fuel,
  fs_wf fs -> lookup fs p = Some n -> (height n <= fuel)%nat ->
  p_size fuel fs p = Some (inr (total_size n)).
Proof. exact size_is_total. Qed.
Print Assumptions C18_size_is_total.

Theorem C18_size_missing : forall fs p fuel, lookup fs p = None -> p_size (S fuel) fs p = Some (inl NotFound).
Proof. exact size_missing. Qed.
Print Assumptions C18_size_missing.

(* listChildren returns every entry exactly once and never "." or ".." *)
Theorem C18_list_children : forall fs p es,
  fs_wf fs -> lookup fs p = Some (FDir es) ->
  list_children fs p = inr (map fst es) /\ NoDup (map fst es) /\
  ~ In DOTNAME (map fst es) /\ ~ In DOTDOT (map fst es).
Proof. exact list_children_spec. Qed.
Print Assumptions C18_list_children.

(* exists / isFile / isDirectory: every existing node is exactly one of file and directory *)
Theorem C18_kinds : forall fs p,
  p_exists fs p = p_is_file fs p || p_is_dir fs p /\ p_is_file fs p && p_is_dir fs p = false.
Proof. exact kinds_spec. Qed.
Print Assumptions C18_kinds.

(* trees built by mkdir / file creation are well-formed *)
Theorem C18_create_wf : forall fs p c fs',
  fs_wf fs -> fs_wf c -> Forall (fun k => 0 <= k) p -> create fs p c = Some fs' -> fs_wf fs'.
Proof. exact create_wf. Qed.
Print Assumptions C18_create_wf.

(* a DirectoryVisitor restores the previous working directory when it is destroyed *)
Theorem C18_visitor_restores : forall fs cwd p, p_is_dir fs cwd = true -> snd (visit_and_restore fs cwd p) = cwd.
Proof. exact visitor_restores. Qed.
Print Assumptions C18_visitor_restores.

Example C18_nonvacuous :
  map (fun s => (get_path_name s, get_parent s))
      [[97; 47; 98]; [97; 47; 98; 47]; [47]; []; [97]; [47; 47]; [97; 92; 98]]
  = [([98], Some [97]); ([98; 47], Some [97]); ([], Some []); ([], Some []); ([97], Some []); ([47], Some []);
     ([98], Some [97])].
Proof. vm_compute. reflexivity. Qed.
