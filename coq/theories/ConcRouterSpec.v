(* ConcRouterSpec.v — the notions the C11 theorems are stated with (definitions only). *)
From Coq Require Import List ZArith Bool Lia Arith.
From Tulz Require Import Common ResourceModel RouterModel ConcRouterModel.
Import ListNotations.

(* the operations of the property: notify, subscribe, unsubscribe, shrink, exists, depth
   (mute / unmute / invalidate are unsynchronised in the source and excluded) *)
Definition op_in_scope (o : rop) : bool :=
  match o with RMute _ | RUnmute _ | RInval _ => false | _ => true end.
Definition progs_in_scope (ps : list (list rop)) : bool := forallb (forallb op_in_scope) ps.

(* the callbacks thread t has run since its last grant (oldest first) *)
Fixpoint calls_since_grant (t : nat) (log : list cevent) : list (nat * Z) :=
  match log with
  | [] => []
  | CGrant t' _ :: rest => if Nat.eqb t t' then [] else calls_since_grant t rest
  | CCall t' obs v :: rest => if Nat.eqb t t' then calls_since_grant t rest ++ [(obs, v)] else calls_since_grant t rest
  | _ :: rest => calls_since_grant t rest
  end.

(* the delivery notify o would make on router r *)
Definition delivery (r : router) (o : rop) : list (nat * Z) := snd (do_rstep r o).

Definition inside_notify (s : cstate) (t : nat) : Prop :=
  exists o k, nth_error (ph s) t = Some (PInCb o k).

(* the observer a handle stands for *)
Definition handle_obs (r : router) (h : nat) : option nat := option_map snd (nth_error (rhandles r) h).
