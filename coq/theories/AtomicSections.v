(* AtomicSections.v — the premise of the atomic-step models of rwp::Resource (C01, C02, C03, C12).

   ResourceModel.step treats the body of Resource::lock up to the wait, the re-check after a
   wake-up, and the body of Resource::unlock up to the notify_all as single steps. That is sound
   when every access to the object's state is made while holding its one internal mutex: the
   sections then exclude each other (the standard's guarantee for std::mutex, RaceProofs.lock_discipline)
   and nothing of the state can be observed from outside a section. Whether the CURRENT source
   has that shape is decided here, by evaluation, on the access rows the translator extracts on
   every run (TulzGen.Accesses); a source in which some access has moved out of the mutex no
   longer satisfies the premise, and the check then searches the implementation for an
   interleaving inside the new window (free exploration of every scheduling point). *)
From Coq Require Import List String Bool.
From Tulz Require Import RaceModel RaceProofs.
Import ListNotations.
Local Open Scope string_scope.

Definition resource_component : string := "Resource".
Definition resource_mutex : string := "m_mutex".

Definition rows_of (c : string) (l : list access) : list access :=
  filter (fun a => String.eqb (a_comp a) c) l.

Definition guarded_by (m : string) (a : access) : bool :=
  existsb (fun g => String.eqb (fst g) m && is_excl (snd g)) (a_guards a).

Definition sections_atomic (c m : string) (l : list access) : bool :=
  match rows_of c l with
  | [] => false                         (* no rows at all: the translator found nothing to judge *)
  | rows => forallb (guarded_by m) rows
  end.

Lemma guarded_by_sound m a : guarded_by m a = true -> In (m, Excl) (a_guards a).
Proof.
  unfold guarded_by. intro H. apply existsb_exists in H. destruct H as [[n md] [Hin Hg]].
  apply andb_prop in Hg. destruct Hg as [Hn Hm]. cbn [fst snd] in Hn, Hm.
  apply String.eqb_eq in Hn. subst n. destruct md; [exact Hin | discriminate Hm].
Qed.

Lemma sections_atomic_sound c m l :
  sections_atomic c m l = true ->
  rows_of c l <> [] /\ forall a, In a l -> a_comp a = c -> In (m, Excl) (a_guards a).
Proof.
  unfold sections_atomic. intro H. split.
  - destruct (rows_of c l); [discriminate H | discriminate].
  - intros a Hin Hc. apply guarded_by_sound.
    assert (Hr : In a (rows_of c l)).
    { unfold rows_of. apply filter_In. split; [exact Hin | apply String.eqb_eq; exact Hc]. }
    destruct (rows_of c l) as [|r rs] eqn:E; [destruct Hr |].
    rewrite forallb_forall in H. apply H. exact Hr.
Qed.

(* no two threads are ever inside sections of the component at the same time: in every reachable
   state of the lock discipline, two different threads cannot both be at an access of the component *)
Lemma sections_exclusive c m l :
  sections_atomic c m l = true ->
  forall n os t1 t2 a1 a2,
    t1 <> t2 -> In a1 l -> In a2 l -> a_comp a1 = c -> a_comp a2 = c ->
    can_perform (lrun (linit n) os) t1 a1 -> can_perform (lrun (linit n) os) t2 a2 -> False.
Proof.
  intros H n os t1 t2 a1 a2 Hne Hin1 Hin2 Hc1 Hc2 Hp1 Hp2.
  destruct (sections_atomic_sound c m l H) as [_ Hg].
  pose proof (Hp1 _ (Hg a1 Hin1 Hc1)) as H1.
  pose proof (Hp2 _ (Hg a2 Hin2 Hc2)) as H2.
  destruct (lock_discipline n os t1 t2 m Excl Excl Hne H1 H2) as [E _]. discriminate E.
Qed.

(* ---- per field: every access to field f of component c is made holding mutex m ----------------- *)

Definition field_rows (c f : string) (l : list access) : list access :=
  filter (fun a => String.eqb (a_comp a) c && String.eqb (a_field a) f) l.

Definition field_guarded (c f m : string) (l : list access) : bool :=
  match field_rows c f l with
  | [] => false
  | rows => forallb (guarded_by m) rows
  end.

Lemma field_guarded_sound c f m l :
  field_guarded c f m l = true ->
  field_rows c f l <> [] /\ forall a, In a l -> a_comp a = c -> a_field a = f -> In (m, Excl) (a_guards a).
Proof.
  unfold field_guarded. intro H. split.
  - destruct (field_rows c f l); [discriminate H | discriminate].
  - intros a Hin Hc Hf. apply guarded_by_sound.
    assert (Hr : In a (field_rows c f l)).
    { unfold field_rows. apply filter_In. split; [exact Hin |].
      apply andb_true_intro. split; apply String.eqb_eq; assumption. }
    destruct (field_rows c f l) as [|r rs] eqn:E; [destruct Hr |].
    rewrite forallb_forall in H. apply H. exact Hr.
Qed.

Lemma field_exclusive c f m l :
  field_guarded c f m l = true ->
  forall n os t1 t2 a1 a2,
    t1 <> t2 -> In a1 l -> In a2 l -> a_comp a1 = c -> a_comp a2 = c -> a_field a1 = f -> a_field a2 = f ->
    can_perform (lrun (linit n) os) t1 a1 -> can_perform (lrun (linit n) os) t2 a2 -> False.
Proof.
  intros H n os t1 t2 a1 a2 Hne Hin1 Hin2 Hc1 Hc2 Hf1 Hf2 Hp1 Hp2.
  destruct (field_guarded_sound c f m l H) as [_ Hg].
  pose proof (Hp1 _ (Hg a1 Hin1 Hc1 Hf1)) as H1.
  pose proof (Hp2 _ (Hg a2 Hin2 Hc2 Hf2)) as H2.
  destruct (lock_discipline n os t1 t2 m Excl Excl Hne H1 H2) as [E _]. discriminate E.
Qed.

Definition pool_component : string := "ThreadPool".
Definition pool_queue : string := "m_queue".
Definition pool_queue_mutex : string := "m_queueMutex".
