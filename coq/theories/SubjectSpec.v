(* SubjectSpec.v — the abstract specification of tulz::Subject: plain subscription records,
   no pointers, no object lifetimes (definitions only).

   A Subject is the list of its subscriptions in subscription order; a subscription record
   carries its id, the identity of the observer, the observer's valid / muted flags and the
   callback script it runs. notify(arg) takes a snapshot of the subscription ids and visits
   them in order: a subscription that is no longer present at its turn is skipped (it was
   removed by an earlier callback), one that is valid and not muted is invoked with arg (its
   script runs against the same world, possibly re-entering notify), and one that is found
   invalid after its turn is removed (lazy unsubscription). Subscriptions added during the
   round are not in the snapshot and are first visited in the next round. *)
From Coq Require Import List ZArith Bool Lia Arith.
From Tulz Require Import Common SubjectModel.
Import ListNotations.
Local Open Scope Z_scope.

Record arec := mkRec { a_sid : Z; a_obs : nat; a_valid : bool; a_muted : bool; a_script : nat }.
Record asubj := mkAS { subs : list arec; acounter : Z }.     (* acounter < 0: destroyed *)
Record aworld := mkAW {
  asubjects : list asubj;
  ahandles : list (option (nat * Z));       (* Some (subject, subscription id) or cleared *)
  anext : nat;                              (* identity of the next observer object *)
  acalls : list (nat * Z)                   (* invocations (observer, argument), newest first *)
}.

Definition aget (w : aworld) (k : nat) : option asubj :=
  match nth_error (asubjects w) k with
  | Some s => if acounter s <? 0 then None else Some s
  | None => None
  end.
Definition aset (w : aworld) (k : nat) (s : asubj) : aworld :=
  mkAW (list_set (asubjects w) k s) (ahandles w) (anext w) (acalls w).
Definition afind (s : asubj) (sid : Z) : option arec := find (fun r => a_sid r =? sid) (subs s).
Definition aremove (s : asubj) (sid : Z) : asubj :=
  mkAS (filter (fun r => negb (a_sid r =? sid)) (subs s)) (acounter s).
Definition aupdate (s : asubj) (sid : Z) (f : arec -> arec) : asubj :=
  mkAS (map (fun r => if a_sid r =? sid then f r else r) (subs s)) (acounter s).

(* the subscription a handle designates, if the handle is valid *)
Definition ahandle_target (w : aworld) (h : nat) : option (nat * Z * arec) :=
  match nth_error (ahandles w) h with
  | Some (Some (k, sid)) =>
      match nth_error (asubjects w) k with
      | Some s => match afind s sid with Some r => Some (k, sid, r) | None => None end
      | None => None
      end
  | _ => None
  end.

Definition a_unsubscribe (w : aworld) (k : nat) (sid : Z) (h : nat) : aworld :=
  match nth_error (asubjects w) k with
  | Some s => mkAW (list_set (asubjects w) k (aremove s sid)) (list_set (ahandles w) h None) (anext w) (acalls w)
  | None => w
  end.

Section AInterp.
  Variable scripts : list (list action).
  Variable rec : aworld -> nat -> Z -> res aworld.

  Definition a_do_action (self : option nat) (w : aworld) (a : action) : res aworld :=
    match a with
    | ASub k scr =>
        match aget w k with
        | None => Ok w
        | Some s =>
            let r := mkRec (acounter s) (anext w) true false scr in
            Ok (mkAW (list_set (asubjects w) k (mkAS (subs s ++ [r]) (acounter s + 1)))
                     (ahandles w ++ [Some (k, acounter s)]) (S (anext w)) (acalls w))
        end
    | AUnsub h =>
        match ahandle_target w h with
        | Some (k, sid, _) => Ok (a_unsubscribe w k sid h)
        | None => Ok w
        end
    | AMute h | AUnmute h | AInval h =>
        match ahandle_target w h with
        | Some (k, sid, _) =>
            match nth_error (asubjects w) k with
            | Some s => Ok (aset w k (aupdate s sid (fun r =>
                          match a with
                          | AMute _ => mkRec (a_sid r) (a_obs r) (a_valid r) true (a_script r)
                          | AUnmute _ => mkRec (a_sid r) (a_obs r) (a_valid r) false (a_script r)
                          | _ => mkRec (a_sid r) (a_obs r) false (a_muted r) (a_script r)
                          end)))
            | None => Ok w
            end
        | None => Ok w
        end
    | AInvalSelf =>
        match self with
        | Some o => Ok (mkAW (map (fun s => mkAS (map (fun r => if Nat.eqb (a_obs r) o
                                                               then mkRec (a_sid r) (a_obs r) false (a_muted r) (a_script r)
                                                               else r) (subs s)) (acounter s)) (asubjects w))
                             (ahandles w) (anext w) (acalls w))
        | None => Ok w
        end
    | ANotify k arg => match aget w k with Some _ => rec w k arg | None => Ok w end
    end.

  Fixpoint a_run_script (self : option nat) (w : aworld) (acts : list action) : res aworld :=
    match acts with
    | [] => Ok w
    | a :: rest => bind (a_do_action self w a) (fun w' => a_run_script self w' rest)
    end.

  Fixpoint a_round (w : aworld) (k : nat) (arg : Z) (snap : list Z) : res aworld :=
    match snap with
    | [] => Ok w
    | sid :: rest =>
        match nth_error (asubjects w) k with
        | None => Err BadRef
        | Some s =>
            match afind s sid with
            | None => a_round w k arg rest                      (* removed before its turn: skipped *)
            | Some r =>
                bind (if a_valid r && negb (a_muted r)
                      then a_run_script (Some (a_obs r))
                             (mkAW (asubjects w) (ahandles w) (anext w) ((a_obs r, arg) :: acalls w))
                             (nth (a_script r) scripts [])
                      else Ok w)
                     (fun w1 =>
                        match nth_error (asubjects w1) k with
                        | None => Err BadRef
                        | Some s1 =>
                            match afind s1 sid with
                            | Some r1 => if a_valid r1 then a_round w1 k arg rest
                                         else a_round (aset w1 k (aremove s1 sid)) k arg rest   (* lazy removal *)
                            | None => a_round w1 k arg rest
                            end
                        end)
            end
        end
    end.

  Definition a_notify_body (w : aworld) (k : nat) (arg : Z) : res aworld :=
    match nth_error (asubjects w) k with
    | None => Err BadRef
    | Some s => a_round w k arg (map a_sid (subs s))
    end.
End AInterp.

Fixpoint a_notify (scripts : list (list action)) (fuel : nat) (w : aworld) (k : nat) (arg : Z) : res aworld :=
  match fuel with
  | O => Err OutOfFuel
  | S f => a_notify_body scripts (a_notify scripts f) w k arg
  end.

Definition a_step (scripts : list (list action)) (fuel : nat) (w : aworld) (o : op) : res (aworld * list Z) :=
  match o with
  | OAct a => bind (a_do_action (a_notify scripts fuel) None w a) (fun w' => Ok (w', []))
  | OSubjUnsub k h =>
      match ahandle_target w h with
      | Some (k', sid, _) => if Nat.eqb k k' then Ok (a_unsubscribe w k sid h, [0]) else Ok (w, [1])
      | None => Ok (w, [1])          (* stale, cleared or foreign handle: std::invalid_argument, nothing changes *)
      end
  | OMove d s =>
      match nth_error (ahandles w) d, nth_error (ahandles w) s with
      | Some hd, Some hs => if Nat.eqb d s then Ok (w, [])
                            else Ok (mkAW (asubjects w) (list_set (list_set (ahandles w) d hs) s hd) (anext w) (acalls w), [])
      | _, _ => Err BadRef
      end
  | ODestroy k =>
      match nth_error (asubjects w) k with
      | None => Err BadRef
      | Some s => Ok (aset w k (mkAS [] (-1)), [])
      end
  end.

Definition aworld0 (nsubj : nat) : aworld := mkAW (repeat (mkAS [] 0) nsubj) [] 0 [].

(* ---- what is observed after an operation (shared by model and specification) ------------ *)

Record obsv := mkObsv {
  v_ret : list Z;                        (* returned values *)
  v_calls : list (nat * Z);              (* invocations during the operation, oldest first *)
  v_handles : list (option bool);        (* per handle: None = not valid, Some muted *)
  v_subs : list bool                     (* per Subject: hasSubscriptions() *)
}.

Definition calls_of (l : list event) : list (nat * Z) :=
  flat_map (fun e => match e with ECall o a => [(o, a)] | EFree _ => [] end) l.
Definition frees_of (l : list event) : list nat :=
  flat_map (fun e => match e with EFree o => [o] | ECall _ _ => [] end) l.

Definition observe_c (w : world) (ret : list Z) (before : nat) : obsv :=
  mkObsv ret (calls_of (rev (firstn (length (log w) - before) (log w))))
         (map (fun h => if handle_valid w h then
                          Some (match h_obs h with
                                | Some o => match nth_error (heap w) o with Some ob => o_muted ob | None => false end
                                | None => false end)
                        else None) (handles w))
         (map (fun s => negb (match observers s with [] => true | _ => false end)) (subjects w)).

Definition observe_a (w : aworld) (ret : list Z) (before : nat) : obsv :=
  mkObsv ret (rev (firstn (length (acalls w) - before) (acalls w)))
         (map (fun h => match ahandle_target w h with Some (_, _, r) => Some (a_muted r) | None => None end)
              (seq 0 (length (ahandles w))))
         (map (fun s => negb (match subs s with [] => true | _ => false end)) (asubjects w)).

Definition a_refs_ok (w : aworld) (o : op) : bool :=
  let okH h := Nat.ltb h (length (ahandles w)) in
  let okS k := match aget w k with Some _ => true | None => false end in
  match o with
  | OAct (ASub k _) | OAct (ANotify k _) | ODestroy k => okS k
  | OAct (AUnsub h) | OAct (AMute h) | OAct (AUnmute h) | OAct (AInval h) => okH h
  | OAct AInvalSelf => true
  | OSubjUnsub k h => okS k && okH h
  | OMove d s => okH d && okH s
  end.

(* traces over programs of operations; an operation whose indices do not exist is rejected
   (None) and changes nothing; the first error ends the trace *)
Inductive outcome := Rejected | Done (v : obsv) | Failed (e : error).

Fixpoint c_trace (defer : bool) (scripts : list (list action)) (fuel : nat) (w : world) (ops : list op) : list outcome :=
  match ops with
  | [] => []
  | o :: rest =>
      if negb (refs_ok w o) then Rejected :: c_trace defer scripts fuel w rest else
      match step defer scripts fuel w o with
      | Ok (w', ret) => Done (observe_c w' ret (length (log w))) :: c_trace defer scripts fuel w' rest
      | Err e => [Failed e]
      end
  end.

Fixpoint a_trace (scripts : list (list action)) (fuel : nat) (w : aworld) (ops : list op) : list outcome :=
  match ops with
  | [] => []
  | o :: rest =>
      if negb (a_refs_ok w o) then Rejected :: a_trace scripts fuel w rest else
      match a_step scripts fuel w o with
      | Ok (w', ret) => Done (observe_a w' ret (length (acalls w))) :: a_trace scripts fuel w' rest
      | Err e => [Failed e]
      end
  end.

(* the final world of a program (None if it failed) *)
Fixpoint c_exec (defer : bool) (scripts : list (list action)) (fuel : nat) (w : world) (ops : list op) : option world :=
  match ops with
  | [] => Some w
  | o :: rest =>
      if negb (refs_ok w o) then c_exec defer scripts fuel w rest else
      match step defer scripts fuel w o with
      | Ok (w', _) => c_exec defer scripts fuel w' rest
      | Err _ => None
      end
  end.

Fixpoint a_exec (scripts : list (list action)) (fuel : nat) (w : aworld) (ops : list op) : option aworld :=
  match ops with
  | [] => Some w
  | o :: rest =>
      if negb (a_refs_ok w o) then a_exec scripts fuel w rest else
      match a_step scripts fuel w o with
      | Ok (w', _) => a_exec scripts fuel w' rest
      | Err _ => None
      end
  end.

(* observer object o is owned by some Subject's subscription list *)
Definition subscribed (w : world) (o : nat) : Prop :=
  exists k s sid, nth_error (subjects w) k = Some s /\ In (sid, o) (observers s).

(* ---- runner of the specification (to test the theorem statements) ------------------------ *)
Definition obsv_z (v : obsv) : list Z :=
  v_ret v ++ [SEP] ++ flat_map (fun c => [1; Z.of_nat (fst c); snd c]) (v_calls v) ++ [SEP] ++
  flat_map (fun h => match h with Some m => [1; b2z m] | None => [0] end) (v_handles v) ++ [SEP] ++
  map b2z (v_subs v).
Definition outcome_z (o : outcome) : list Z :=
  match o with Rejected => [PRE] | Done v => obsv_z v | Failed e => [err_z e] end.

Definition ops_of (ls : list (list Z)) : list (option op) := map op_of ls.

Fixpoint somes {A} (l : list (option A)) : list A :=
  match l with [] => [] | Some x :: t => x :: somes t | None :: t => somes t end.

Definition parse_case (case : list (list Z)) : option (bool * nat * list (list action) * list (list Z)) :=
  match case with
  | [v; ns; nscr; sig] :: rest =>
      let scr_lines := firstn (zn nscr) rest in
      let scripts := map (fun l => script_of (length l) l) scr_lines in
      let scripts := if sig =? 0 then
                       map (map (fun a => match a with ANotify k _ => ANotify k 0 | _ => a end)) scripts
                     else scripts in
      Some (negb (v =? 0), zn ns, scripts, map (zero_args sig) (skipn (zn nscr) rest))
  | _ => None
  end.

(* both runners on well-formed operation lines only (malformed lines are dropped) *)
Definition subj_c_run (case : list (list Z)) : list (list Z) :=
  match parse_case case with
  | Some (defer, ns, scripts, ls) =>
      [] :: map outcome_z (c_trace defer scripts NESTING (world0 ns) (somes (ops_of ls)))
  | None => [[PRE]]
  end.
Definition subj_a_run (case : list (list Z)) : list (list Z) :=
  match parse_case case with
  | Some (_, ns, scripts, ls) =>
      [] :: map outcome_z (a_trace scripts NESTING (aworld0 ns) (somes (ops_of ls)))
  | None => [[PRE]]
  end.
