(* AccessTable.v — the access table the data-race theorem is about, with the roles of the functions,
   the per-thread fields and the one pair discharged by a state argument (definitions only).
   The rows are what the translator extracts from the tree's sources (helper functions such as
   Resource::enqueue / select are inlined into the entry points that call them) (Properties_C15 checks
   that they still are, by evaluation); they are kept here so that the theorem has a fixed object. *)
From Coq Require Import List String Bool.
From Tulz Require Import RaceModel.
Import ListNotations.
Local Open Scope string_scope.

Definition expected_accesses : list access :=
[mkAcc "Resource" "Resource::lock" "m_activeCount" true false [("m_mutex", Excl)];
 mkAcc "Resource" "Resource::lock" "m_activeOp" false false [("m_mutex", Excl)];
 mkAcc "Resource" "Resource::lock" "m_activeOp" true false [("m_mutex", Excl)];
 mkAcc "Resource" "Resource::lock" "m_idCounter" false false [("m_mutex", Excl)];
 mkAcc "Resource" "Resource::lock" "m_idCounter" true false [("m_mutex", Excl)];
 mkAcc "Resource" "Resource::lock" "m_queue" false false [("m_mutex", Excl)];
 mkAcc "Resource" "Resource::lock" "m_queue" true false [("m_mutex", Excl)];
 mkAcc "Resource" "Resource::lock" "m_upperUnlockBound" false false [("m_mutex", Excl)];
 mkAcc "Resource" "Resource::unlock" "m_activeCount" true false [("m_mutex", Excl)];
 mkAcc "Resource" "Resource::unlock" "m_activeOp" false false [("m_mutex", Excl)];
 mkAcc "Resource" "Resource::unlock" "m_activeOp" true false [("m_mutex", Excl)];
 mkAcc "Resource" "Resource::unlock" "m_idCounter" true false [("m_mutex", Excl)];
 mkAcc "Resource" "Resource::unlock" "m_queue" false false [("m_mutex", Excl)];
 mkAcc "Resource" "Resource::unlock" "m_queue" true false [("m_mutex", Excl)];
 mkAcc "Resource" "Resource::unlock" "m_upperUnlockBound" false false [("m_mutex", Excl)];
 mkAcc "Resource" "Resource::unlock" "m_upperUnlockBound" true false [("m_mutex", Excl)];
 mkAcc "Router" "ConcurrentInvoker::unsubscribe" "m_router" true false [("m_resource", Excl)];
 mkAcc "Router" "ConcurrentSubjectRouter::depth" "m_router" false false [("m_resource", Shared)];
 mkAcc "Router" "ConcurrentSubjectRouter::exists" "m_router" false false [("m_resource", Shared)];
 mkAcc "Router" "ConcurrentSubjectRouter::notify" "m_router" false false [("m_resource", Shared)];
 mkAcc "Router" "ConcurrentSubjectRouter::shrink" "m_router" true false [("m_resource", Excl)];
 mkAcc "Router" "ConcurrentSubjectRouter::subscribe" "m_router" true false [("m_resource", Excl)];
 mkAcc "Thread" "Thread::isFinished" "Thread::m_isFinished" false true [];
 mkAcc "Thread" "Thread::isRunning" "Thread::m_isFinished" false true [];
 mkAcc "Thread" "Thread::join" "m_thread" true false [];
 mkAcc "Thread" "Thread::start(Runnable)" "Thread::m_isFinished" true true [];
 mkAcc "Thread" "Thread::start(Runnable)" "m_thread" true false [];
 mkAcc "Thread" "Thread::start(callable)" "Thread::m_isFinished" true true [];
 mkAcc "Thread" "Thread::start(callable)" "m_thread" true false [];
 mkAcc "ThreadPool" "PooledRunnable::run" "m_expiryTimeout" false false [("m_queueMutex", Excl)];
 mkAcc "ThreadPool" "PooledRunnable::run" "m_isRunning" false false [("m_queueMutex", Excl)];
 mkAcc "ThreadPool" "PooledRunnable::run" "m_lastActiveTime" false false [("m_queueMutex", Excl)];
 mkAcc "ThreadPool" "PooledRunnable::run" "m_lastActiveTime" true false [];
 mkAcc "ThreadPool" "PooledRunnable::run" "m_queue" false false [("m_queueMutex", Excl)];
 mkAcc "ThreadPool" "PooledRunnable::run" "m_queue" true false [("m_queueMutex", Excl)];
 mkAcc "ThreadPool" "ThreadPool::clear" "m_queue" false false [("m_queueMutex", Excl)];
 mkAcc "ThreadPool" "ThreadPool::clear" "m_queue" true false [("m_queueMutex", Excl)];
 mkAcc "ThreadPool" "ThreadPool::getActiveThreadCount" "Thread::m_isFinished" false true [];
 mkAcc "ThreadPool" "ThreadPool::getActiveThreadCount" "m_pool" false false [];
 mkAcc "ThreadPool" "ThreadPool::getExpiryTimeout" "m_expiryTimeout" false false [];
 mkAcc "ThreadPool" "ThreadPool::getThreadCount" "m_pool" false false [];
 mkAcc "ThreadPool" "ThreadPool::isRunning" "m_isRunning" false false [];
 mkAcc "ThreadPool" "ThreadPool::start" "m_isRunning" false false [];
 mkAcc "ThreadPool" "ThreadPool::start" "m_isRunning" true false [];
 mkAcc "ThreadPool" "ThreadPool::start" "m_maxThreadCount" false false [("m_poolMutex", Excl)];
 mkAcc "ThreadPool" "ThreadPool::start" "m_pool" false false [("m_poolMutex", Excl)];
 mkAcc "ThreadPool" "ThreadPool::start" "m_pool" true false [("m_poolMutex", Excl)];
 mkAcc "ThreadPool" "ThreadPool::start" "m_queue" true false [("m_queueMutex", Excl)];
 mkAcc "ThreadPool" "ThreadPool::stop" "m_isRunning" true false [("m_queueMutex", Excl)];
 mkAcc "ThreadPool" "ThreadPool::stop" "m_pool" false false [("m_poolMutex", Excl)];
 mkAcc "ThreadPool" "ThreadPool::stop" "m_pool" true false [("m_poolMutex", Excl)];
 mkAcc "ThreadPool" "ThreadPool::update" "Thread::m_isFinished" false true [("m_poolMutex", Excl)];
 mkAcc "ThreadPool" "ThreadPool::update" "m_expiryTimeout" false false [];
 mkAcc "ThreadPool" "ThreadPool::update" "m_pool" false false [("m_poolMutex", Excl)];
 mkAcc "ThreadPool" "ThreadPool::update" "m_pool" true false [("m_poolMutex", Excl)]].

(* who runs what: Resource and ConcurrentSubjectRouter are used by arbitrary client threads; the
   ThreadPool API and the Thread object are used by the one owner thread; PooledRunnable::run and the
   body of the lambda handed to std::thread (the write of m_isFinished in Thread::start) run on the
   started thread *)
Definition role_of (a : access) : role :=
  if String.eqb (a_comp a) "Resource" || String.eqb (a_comp a) "Router" then Client
  else if String.eqb (a_fn a) "PooledRunnable::run" then Worker
  else if (String.eqb (a_fn a) "Thread::start(Runnable)" || String.eqb (a_fn a) "Thread::start(callable)")
          && String.eqb (a_field a) "Thread::m_isFinished" then Worker
  else Owner.

(* each worker thread has its own PooledThread / Thread object *)
Definition per_worker (a : access) : bool :=
  String.eqb (a_field a) "m_lastActiveTime" || String.eqb (a_field a) "Thread::m_isFinished" || String.eqb (a_field a) "m_thread".

(* ThreadPool::start re-arms m_isRunning without a lock, but only when it finds it false, and then
   no worker is alive (Properties_C15, C15_rearm_has_no_reader): the workers' reads of the flag
   cannot be concurrent with that write *)
Definition exempt (a1 a2 : access) : bool :=
  let rearm a := String.eqb (a_fn a) "ThreadPool::start" && String.eqb (a_field a) "m_isRunning" in
  let reader a := String.eqb (a_fn a) "PooledRunnable::run" && String.eqb (a_field a) "m_isRunning" && negb (a_write a) in
  (rearm a1 && reader a2) || (reader a1 && rearm a2).
