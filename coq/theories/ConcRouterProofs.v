(* ConcRouterProofs.v — the lemmas closing Properties_C11: the operations of the concurrent router
   are atomic with respect to each other. Everything rests on the inductive invariant CRInv of the
   composed model: the Resource invariant RInv, the agreement between a thread's phase and its lock
   state, the router invariant RtInv (every record valid, observer numbers = handle numbers), the
   link between the log and the delivery of a running notify, and the unsubscribe history. *)
From Coq Require Import List ZArith Bool Lia Arith.
From Tulz Require Import Common ResourceModel ResourceInv ResourceLemmas ResourceProofs
  RouterModel RouterSpec RouterProofsA ConcRouterModel ConcRouterSpec ConcRouterLemmasA.
Import ListNotations.

(* ---- the record updates of the model -------------------------------------------------------------- *)

Lemma finish_op_eq tbl s t o :
  finish_op tbl s t o =
  mkCS (release (op_mode tbl o) (lk s) t) (fst (fst (do_rstep (rt s) o))) (list_set (ph s) t PIdle) (cprogs s)
       (CDone t o (snd (fst (do_rstep (rt s) o))) :: (if mutates o then [CEffect t o] else []) ++ clog s).
Proof. unfold finish_op, set_ph. destruct (do_rstep (rt s) o) as [[r' ret] c]. reflexivity. Qed.

Lemma run_body_cases tbl s t o k :
  (exists p a obs v, o = RNotify p a /\ nth_error (delivery (rt s) o) k = Some (obs, v) /\
     run_body tbl s t o k =
     mkCS (lk s) (rt s) (list_set (ph s) t (PInCb o k)) (cprogs s) (CCall t obs v :: clog s))
  \/ (((exists p a, o = RNotify p a) -> nth_error (delivery (rt s) o) k = None) /\
      run_body tbl s t o k = finish_op tbl s t o).
Proof.
  destruct o; try (right; split; [intros (p & a & E); discriminate|reflexivity]).
  unfold run_body, delivery, set_ph. destruct (do_rstep (rt s) (RNotify pat arg)) as [[r' ret] calls]. cbn [snd].
  destruct (nth_error calls k) as [[obs v]|] eqn:E.
  - left. exists pat, arg, obs, v. auto.
  - right. split; auto.
Qed.

(* ---- the invariant ------------------------------------------------------------------------------------ *)

(* thread t: its phase agrees with its lock state; inside a notify the callbacks run since the
   grant are the first ones of the delivery *)
Definition TInv (tbl : locktable) (s : cstate) (t : nat) : Prop :=
  match nth_error (ph s) t with
  | None => True
  | Some PIdle => nth_error (thr (lk s)) t = Some Idle
  | Some (PParked o) =>
      op_in_scope o = true /\
      (exists m id nt a, nth_error (thr (lk s)) t = Some (Parked m id nt a) /\ mode_op (op_mode tbl o) = Some m) /\
      (forall h, o = RUnsub h -> h < length (rhandles (rt s)))
  | Some (PInCb o k) =>
      (exists p a, o = RNotify p a) /\
      (exists m, nth_error (thr (lk s)) t = Some (Holding m) /\ mode_op (op_mode tbl o) = Some m) /\
      calls_since_grant t (clog s) = firstn (S k) (delivery (rt s) o)
  end.

Record GInv (s : cstate) : Prop := {
  g_rinv : RInv (lk s);
  g_scope : forall t p o, nth_error (cprogs s) t = Some p -> In o p -> op_in_scope o = true;
  g_rt : RtInv (rt s);
  g_u1 : nocall_ok (clog s);
  g_u2 : forall t h, In (CEffect t (RUnsub h)) (clog s) ->
           h < length (rhandles (rt s)) /\ ~ obs_in (rt s) h
}.

Definition CRInv (tbl : locktable) (s : cstate) : Prop := GInv s /\ forall t, TInv tbl s t.

Lemma tinv_frame tbl s s' t' : TInv tbl s t' ->
  nth_error (ph s') t' = nth_error (ph s) t' ->
  (forall st, nth_error (thr (lk s)) t' = Some st ->
     nth_error (thr (lk s')) t' = Some st \/ nth_error (thr (lk s')) t' = Some (notify_one_thread st)) ->
  length (rhandles (rt s)) <= length (rhandles (rt s')) ->
  calls_since_grant t' (clog s') = calls_since_grant t' (clog s) ->
  (rt s' = rt s \/ forall m, nth_error (thr (lk s)) t' <> Some (Holding m)) ->
  TInv tbl s' t'.
Proof.
  unfold TInv. intros H Hph Hlk Hlen Hcsg Hrt. rewrite Hph.
  destruct (nth_error (ph s) t') as [[|o|o k]|]; auto.
  - destruct (Hlk _ H) as [E|E]; exact E.
  - destruct H as (SC & (m & id & nt & a & Hp & Em) & UN). split; [exact SC|]. split.
    + destruct (Hlk _ Hp) as [E|E]; cbn [notify_one_thread] in E; eauto 10.
    + intros h Eo. specialize (UN h Eo). lia.
  - destruct H as (NO & (m & Hh & Em) & CSG). split; [exact NO|].
    assert (Hh' : nth_error (thr (lk s')) t' = Some (Holding m)) by (destruct (Hlk _ Hh) as [E|E]; exact E).
    split; [eauto|]. rewrite Hcsg. destruct Hrt as [->|Hno]; [exact CSG|]. destruct (Hno _ Hh).
Qed.

(* the state in which the body of o runs (from callback number k on) for thread t: t holds the lock *)
Record Pre (tbl : locktable) (s1 : cstate) (t : nat) (o : rop) (k : nat) : Prop := {
  p_g : GInv s1;
  p_others : forall t', t' <> t -> TInv tbl s1 t';
  p_hold : exists m, nth_error (thr (lk s1)) t = Some (Holding m) /\ mode_op (op_mode tbl o) = Some m;
  p_scope : op_in_scope o = true;
  p_csg : calls_since_grant t (clog s1) = firstn k (delivery (rt s1) o);
  p_unsub : forall h, o = RUnsub h -> h < length (rhandles (rt s1));
  p_tlen : t < length (ph s1)
}.

Lemma run_body_inv tbl s1 t o k : lock_table_ok tbl = true -> Pre tbl s1 t o k ->
  CRInv tbl (run_body tbl s1 t o k).
Proof.
  intros TB P. destruct P as [G OT (m & Hm & Mm) SC CSG UN TL].
  destruct (run_body_cases tbl s1 t o k) as [(p & a & obs & v & -> & En & ->)|[Hnone ->]].
  - (* the next callback *)
    split.
    + destruct G as [G1 G2 G3 G4 G5]. constructor; cbn [lk rt ph cprogs clog]; auto.
      * cbn [nocall_ok]. split; auto. intros t0 Hin. destruct (G5 _ _ Hin) as [_ N]. apply N.
        eapply delivery_obs; eauto. eapply nth_error_In; eauto.
      * intros t0 h [H|H]; [discriminate|]. exact (G5 _ _ H).
    + intros t'. destruct (Nat.eq_dec t' t) as [->|N].
      * unfold TInv. cbn [lk rt ph cprogs clog]. rewrite nth_error_list_set_eq by exact TL.
        split; [eauto|]. split; [eauto|]. rewrite csg_call_self, CSG. symmetry. apply firstn_snoc_nth. exact En.
      * apply (tinv_frame tbl s1 _ t' (OT t' N)); cbn [lk rt ph cprogs clog]; auto.
        -- apply nth_error_list_set_neq. auto.
        -- apply csg_call_other. auto.
  - (* the operation finishes *)
    rewrite finish_op_eq.
    destruct (table_modes tbl o TB SC) as (m' & Em' & NN & MW). rewrite Mm in Em'. inversion Em'; subst m'.
    destruct G as [G1 G2 G3 G4 G5].
    destruct (release_spec (op_mode tbl o) (lk s1) t m NN G1 Hm) as (R1 & R2 & R3).
    destruct (do_rstep_inv (rt s1) o G3 SC) as (D1 & (ext & D2) & D3 & D4 & D5).
    assert (LEN : length (rhandles (rt s1)) <= length (rhandles (fst (fst (do_rstep (rt s1) o)))))
      by (rewrite D2, app_length; lia).
    split.
    + constructor; cbn [lk rt ph cprogs clog]; auto.
      * destruct (mutates o); cbn; exact G4.
      * intros t0 h [H|H]; [discriminate|].
        destruct (mutates o) eqn:M; cbn [app] in H.
        -- destruct H as [H|H].
           ++ injection H as E1 E2. split; [specialize (UN h E2); lia|apply D5; auto].
           ++ destruct (G5 _ _ H). split; [lia|apply D4; auto].
        -- destruct (G5 _ _ H). split; [lia|apply D4; auto].
    + intros t'. destruct (Nat.eq_dec t' t) as [->|N].
      * unfold TInv. cbn [lk rt ph cprogs clog]. rewrite nth_error_list_set_eq by exact TL. exact R2.
      * apply (tinv_frame tbl s1 _ t' (OT t' N)); cbn [lk rt ph cprogs clog].
        -- apply nth_error_list_set_neq; auto.
        -- intros st Hst. apply R3; auto.
        -- exact LEN.
        -- rewrite csg_done. destruct (mutates o); cbn [app]; [rewrite csg_effect|]; reflexivity.
        -- destruct (mutates o) eqn:M.
           ++ right. intros m' Hh. specialize (MW eq_refl). subst m.
              exact (writer_exclusive_inv (lk s1) t t' m' G1 (fun E => N (eq_sym E)) Hm Hh).
           ++ left. apply D3. reflexivity.
Qed.

(* either the body leaves the router alone and logs no effect, or nobody else is inside a notify *)
Lemma run_body_eff tbl s1 t o k : lock_table_ok tbl = true -> Pre tbl s1 t o k ->
  (rt (run_body tbl s1 t o k) = rt s1 /\
   exists new, clog (run_body tbl s1 t o k) = new ++ clog s1 /\ forall o', ~ In (CEffect t o') new)
  \/ (forall t', t' <> t -> ~ inside_notify s1 t').
Proof.
  intros TB P. destruct P as [G OT (m & Hm & Mm) SC CSG UN TL].
  destruct (run_body_cases tbl s1 t o k) as [(p & a & obs & v & -> & En & ->)|[Hnone ->]].
  - left. cbn [rt clog]. split; auto. exists [CCall t obs v]. split; auto. intros o' [H|[]]; discriminate.
  - rewrite finish_op_eq. cbn [rt clog]. destruct (mutates o) eqn:M.
    + right. intros t' N (o' & k' & Hph). specialize (OT t' N). unfold TInv in OT. rewrite Hph in OT.
      destruct OT as (_ & (m' & Hh & _) & _).
      destruct (table_modes tbl o TB SC) as (m2 & Em2 & _ & MW). rewrite Mm in Em2. inversion Em2; subst m2.
      specialize (MW M). subst m.
      exact (writer_exclusive_inv (lk s1) t t' m' (g_rinv _ G) (fun E => N (eq_sym E)) Hm Hh).
    + left. split.
      * apply do_rstep_inv; auto. apply G.
      * eexists [CDone t o _]. split; [reflexivity|]. intros o' [H|[]]; discriminate.
Qed.

Lemma scope_set (progs : list (list rop)) t o rest :
  (forall t0 p o0, nth_error progs t0 = Some p -> In o0 p -> op_in_scope o0 = true) ->
  nth_error progs t = Some (o :: rest) ->
  forall t0 p o0, nth_error (list_set progs t rest) t0 = Some p -> In o0 p -> op_in_scope o0 = true.
Proof.
  intros H E t0 p o0 Hn Hi. apply nth_error_list_set_inv in Hn.
  destruct Hn as [[-> ->]|[_ Hn]]; [eapply H; [exact E|right; exact Hi]|eapply H; eauto].
Qed.

Lemma pre_enter tbl s t o m l' progs' : CRInv tbl s -> RInv l' ->
  nth_error (thr l') t = Some (Holding m) -> mode_op (op_mode tbl o) = Some m ->
  (forall t', t' <> t -> nth_error (thr l') t' = nth_error (thr (lk s)) t') ->
  op_in_scope o = true -> (forall h, o = RUnsub h -> h < length (rhandles (rt s))) ->
  t < length (ph s) ->
  (forall t0 p o0, nth_error progs' t0 = Some p -> In o0 p -> op_in_scope o0 = true) ->
  Pre tbl (mkCS l' (rt s) (ph s) progs' (CGrant t o :: clog s)) t o 0.
Proof.
  intros [G T] RI' Hh Hm Hoth SC UN TL PS. destruct G as [G1 G2 G3 G4 G5].
  constructor; cbn [lk rt ph cprogs clog].
  - constructor; cbn [lk rt ph cprogs clog]; auto. intros t0 h [H|H]; [discriminate|exact (G5 _ _ H)].
  - intros t' N. apply (tinv_frame tbl s _ t' (T t')); cbn [lk rt ph cprogs clog]; auto.
    + intros st Hst. left. rewrite Hoth; auto.
    + apply csg_grant_other; auto.
  - eauto.
  - exact SC.
  - apply csg_grant_self.
  - exact UN.
  - exact TL.
Qed.

(* ---- the shape of a step ------------------------------------------------------------------------------ *)

Definition quiet tbl s t s' : Prop :=
  CRInv tbl s' /\ rt s' = rt s /\ exists new, clog s' = new ++ clog s /\ forall o, ~ In (CEffect t o) new.
Definition viabody tbl s t s' : Prop :=
  exists s1 o k, s' = run_body tbl s1 t o k /\ Pre tbl s1 t o k /\ rt s1 = rt s /\ ph s1 = ph s /\
    exists new, clog s1 = new ++ clog s /\ forall o', ~ In (CEffect t o') new.

Lemma cstep_shape tbl s t s' : lock_table_ok tbl = true -> CRInv tbl s -> cstep tbl s t = Some s' ->
  quiet tbl s t s' \/ viabody tbl s t s'.
Proof.
  intros TB HI H. pose proof HI as [G T]. pose proof (T t) as Tt. unfold TInv in Tt.
  unfold cstep in H. destruct (nth_error (ph s) t) as [[|o|o k]|] eqn:Eph; [| | |discriminate].
  - (* idle: the next operation starts *)
    destruct (nth_error (cprogs s) t) as [[|o rest]|] eqn:Epr; try discriminate.
    cbv zeta in H. cbn [lk rt ph cprogs clog] in H.
    assert (SC : op_in_scope o = true) by (eapply (g_scope _ G); [exact Epr|left; reflexivity]).
    pose proof (scope_set _ _ _ _ (g_scope _ G) Epr) as PS.
    assert (TL : t < length (ph s)) by (eapply nth_error_lt; eauto).
    destruct (is_noop s o) eqn:NO.
    + inversion H; subst s'; clear H. left. split; [|split].
      * split.
        -- destruct G as [G1 G2 G3 G4 G5]. constructor; cbn [lk rt ph cprogs clog]; auto.
           intros t0 h [Hx|Hx]; [discriminate|exact (G5 _ _ Hx)].
        -- intros t'. apply (tinv_frame tbl s _ t' (T t')); cbn [lk rt ph cprogs clog]; auto.
      * reflexivity.
      * exists [CDone t o []]. split; [reflexivity|]. intros o' [Hx|[]]; discriminate.
    + destruct (table_modes tbl o TB SC) as (m & Em & NN & MW). rewrite Em in H.
      destruct (step true (lk s) (Req t m)) as [l'|] eqn:Es; [|discriminate].
      destruct (step_req_inv _ _ _ _ Es) as (Hidle & Hnew & Hoth).
      pose proof (rinv_step _ _ _ (g_rinv _ G) Es) as RI'.
      assert (UN : forall h, o = RUnsub h -> h < length (rhandles (rt s))).
      { intros h ->. cbn [is_noop] in NO. apply orb_false_elim in NO. destruct NO as [NO _].
        apply negb_false_iff in NO. unfold handle_live in NO.
        destruct (nth_error (rhandles (rt s)) h) eqn:Eh; [|discriminate]. eapply nth_error_lt; eauto. }
      destruct Hnew as [Hnew|(id & a & Hnew)]; rewrite Hnew in H; cbv beta iota in H;
        inversion H; subst s'; clear H.
      * right. eexists _, o, 0. split; [reflexivity|]. split; [|split; [reflexivity|split; [reflexivity|]]].
        -- unfold granted. cbn [lk rt ph cprogs clog].
           apply (pre_enter tbl s t o m l' _ HI RI' Hnew Em Hoth SC UN TL PS).
        -- exists [CGrant t o]. split; [reflexivity|]. intros o' [Hx|[]]; discriminate.
      * left. split; [|split].
        -- split.
           ++ destruct G as [G1 G2 G3 G4 G5]. constructor; cbn [lk rt ph cprogs clog]; auto.
           ++ intros t'. destruct (Nat.eq_dec t' t) as [->|N].
              ** unfold TInv, set_ph. cbn [lk rt ph cprogs clog]. rewrite nth_error_list_set_eq by exact TL.
                 split; [exact SC|]. split; [eauto 10|exact UN].
              ** apply (tinv_frame tbl s _ t' (T t')); unfold set_ph; cbn [lk rt ph cprogs clog]; auto.
                 --- apply nth_error_list_set_neq; auto.
                 --- intros st Hst. left. rewrite Hoth; auto.
        -- reflexivity.
        -- exists []. split; [reflexivity|]. intros o' [].
  - (* parked: woken up *)
    destruct Tt as (SC & (m & id & nt & a & Hp & Em) & UN).
    assert (TL : t < length (ph s)) by (eapply nth_error_lt; eauto).
    destruct (step true (lk s) (Wake t)) as [l'|] eqn:Es; [|discriminate].
    destruct (step_wake_inv _ _ _ Es) as (m0 & id0 & a0 & Hp0 & Hnew & Hoth).
    rewrite Hp in Hp0. inversion Hp0; subst; clear Hp0.
    pose proof (rinv_step _ _ _ (g_rinv _ G) Es) as RI'.
    destruct Hnew as [Hnew|Hnew]; rewrite Hnew in H; cbv beta iota in H; inversion H; subst s'; clear H.
    + right. eexists _, o, 0. split; [reflexivity|]. split; [|split; [reflexivity|split; [reflexivity|]]].
      * unfold granted. cbn [lk rt ph cprogs clog].
        apply (pre_enter tbl s t o _ l' _ HI RI' Hnew Em Hoth SC UN TL (g_scope _ G)).
      * exists [CGrant t o]. split; [reflexivity|]. intros o' [Hx|[]]; discriminate.
    + left. split; [|split].
      * split.
        -- destruct G as [G1 G2 G3 G4 G5]. constructor; cbn [lk rt ph cprogs clog]; auto.
        -- intros t'. destruct (Nat.eq_dec t' t) as [->|N].
           ++ unfold TInv. cbn [lk rt ph cprogs clog]. rewrite Eph.
              split; [exact SC|]. split; [eauto 10|exact UN].
           ++ apply (tinv_frame tbl s _ t' (T t')); cbn [lk rt ph cprogs clog]; auto.
              intros st Hst. left. rewrite Hoth; auto.
      * reflexivity.
      * exists []. split; [reflexivity|]. intros o' [].
  - (* inside a callback: it returns *)
    destruct Tt as ((p & a & ->) & (m & Hh & Em) & CSG). inversion H; subst s'; clear H.
    right. exists s, (RNotify p a), (S k). split; [reflexivity|].
    split; [|split; [reflexivity|split; [reflexivity|]]].
    + constructor; auto.
      * eauto.
      * discriminate.
      * eapply nth_error_lt; eauto.
    + exists []. split; [reflexivity|]. intros o' [].
Qed.

Lemma cinv_step tbl s t s' : lock_table_ok tbl = true -> CRInv tbl s -> cstep tbl s t = Some s' -> CRInv tbl s'.
Proof.
  intros TB HI H. destruct (cstep_shape tbl s t s' TB HI H) as [(Q & _)|(s1 & o & k & -> & P & _)].
  - exact Q.
  - apply run_body_inv; auto.
Qed.

Lemma step_eff tbl s t s' : lock_table_ok tbl = true -> CRInv tbl s -> cstep tbl s t = Some s' ->
  (rt s' = rt s /\ exists new, clog s' = new ++ clog s /\ forall o, ~ In (CEffect t o) new)
  \/ (forall t', t' <> t -> ~ inside_notify s t').
Proof.
  intros TB HI H.
  destruct (cstep_shape tbl s t s' TB HI H) as [(_ & Q)|(s1 & o & k & -> & P & Ert & Eph & new & Elog & Hno)].
  - left. exact Q.
  - destruct (run_body_eff tbl s1 t o k TB P) as [(E & new' & Elog' & Hno')|R].
    + left. split; [congruence|]. exists (new' ++ new). split.
      * rewrite Elog', Elog. apply app_assoc.
      * intros o' Hin. apply in_app_or in Hin. destruct Hin as [Hin|Hin]; [eapply Hno'|eapply Hno]; eauto.
    + right. intros t' N. unfold inside_notify. rewrite <- Eph. apply R. exact N.
Qed.

Lemma cinv_init tbl ps : progs_in_scope ps = true -> CRInv tbl (cr_init ps).
Proof.
  intros S. unfold cr_init. split.
  - constructor; cbn [lk rt ph cprogs clog].
    + apply rinv_init.
    + intros t p o Hn Hi. unfold progs_in_scope in S. rewrite forallb_forall in S.
      apply nth_error_In in Hn. specialize (S p Hn). rewrite forallb_forall in S. auto.
    + apply rtinv0.
    + exact I.
    + intros t h [].
  - intros t. unfold TInv. cbn [lk rt ph cprogs clog].
    destruct (nth_error (repeat PIdle (length ps)) t) as [p|] eqn:E; [|exact I].
    pose proof (nth_error_lt _ _ _ E) as L. rewrite repeat_length in L.
    apply nth_error_In, repeat_spec in E. subst p. unfold init. cbn [thr]. apply nth_error_repeat. exact L.
Qed.

Lemma cinv_run tbl : lock_table_ok tbl = true -> forall ts s, CRInv tbl s -> CRInv tbl (crun tbl s ts).
Proof.
  intros TB. induction ts as [|t ts IH]; intros s HI; cbn [crun]; auto.
  destruct (cstep tbl s t) as [s'|] eqn:E; auto. apply IH. eapply cinv_step; eauto.
Qed.

Lemma reach tbl ps ts : lock_table_ok tbl = true -> progs_in_scope ps = true ->
  CRInv tbl (crun tbl (cr_init ps) ts).
Proof. intros TB PS. apply cinv_run; auto. apply cinv_init; auto. Qed.

(* ---- the lemmas used by Properties_C11 ------------------------------------------------------------------ *)

Lemma no_effect_during_delivery : forall tbl ps ts t s' o,
  lock_table_ok tbl = true -> progs_in_scope ps = true ->
  cstep tbl (crun tbl (cr_init ps) ts) t = Some s' ->
  In (CEffect t o) (firstn (length (clog s') - length (clog (crun tbl (cr_init ps) ts))) (clog s')) ->
  forall t', t' <> t -> ~ inside_notify (crun tbl (cr_init ps) ts) t'.
Proof.
  intros tbl ps ts t s' o TB PS Hs Hin.
  destruct (step_eff tbl _ t s' TB (reach tbl ps ts TB PS) Hs) as [(_ & new & E & Hno)|R]; [|exact R].
  rewrite E, firstn_new in Hin. destruct (Hno _ Hin).
Qed.

Lemma router_stable_during_delivery : forall tbl ps ts t t' s',
  lock_table_ok tbl = true -> progs_in_scope ps = true ->
  inside_notify (crun tbl (cr_init ps) ts) t' -> t <> t' ->
  cstep tbl (crun tbl (cr_init ps) ts) t = Some s' ->
  rt s' = rt (crun tbl (cr_init ps) ts).
Proof.
  intros tbl ps ts t t' s' TB PS Hin N Hs.
  destruct (step_eff tbl _ t s' TB (reach tbl ps ts TB PS) Hs) as [(E & _)|R]; [exact E|].
  exfalso. apply (R t'); auto.
Qed.

Lemma notify_atomic : forall tbl ps ts t o k,
  lock_table_ok tbl = true -> progs_in_scope ps = true ->
  nth_error (ph (crun tbl (cr_init ps) ts)) t = Some (PInCb o k) ->
  calls_since_grant t (clog (crun tbl (cr_init ps) ts))
  = firstn (S k) (delivery (rt (crun tbl (cr_init ps) ts)) o).
Proof.
  intros tbl ps ts t o k TB PS H.
  pose proof (proj2 (reach tbl ps ts TB PS) t) as T. unfold TInv in T. rewrite H in T. apply T.
Qed.

Lemma notify_complete : forall tbl ps ts t o k s',
  lock_table_ok tbl = true -> progs_in_scope ps = true ->
  nth_error (ph (crun tbl (cr_init ps) ts)) t = Some (PInCb o k) ->
  cstep tbl (crun tbl (cr_init ps) ts) t = Some s' -> nth_error (ph s') t = Some PIdle ->
  calls_since_grant t (clog (crun tbl (cr_init ps) ts)) = delivery (rt (crun tbl (cr_init ps) ts)) o /\
  rt s' = rt (crun tbl (cr_init ps) ts).
Proof.
  intros tbl ps ts t o k s' TB PS H Hs Hidle.
  pose proof (reach tbl ps ts TB PS) as [G T]. set (s := crun tbl (cr_init ps) ts) in *.
  pose proof (T t) as Tt. unfold TInv in Tt. rewrite H in Tt.
  destruct Tt as ((p & a & ->) & _ & CSG).
  assert (Es' : s' = run_body tbl s t (RNotify p a) (S k)).
  { unfold cstep in Hs. rewrite H in Hs. congruence. }
  clear Hs. subst s'.
  assert (TL : t < length (ph s)) by (eapply nth_error_lt; eauto).
  destruct (run_body_cases tbl s t (RNotify p a) (S k)) as [(p' & a' & obs & v & _ & _ & E)|[Hnone E]];
    rewrite E in *.
  - cbn [ph] in Hidle. rewrite nth_error_list_set_eq in Hidle by exact TL. discriminate.
  - split.
    + rewrite CSG. apply firstn_all2. apply nth_error_None. apply Hnone. eauto.
    + rewrite finish_op_eq. cbn [rt]. apply do_rstep_inv; auto. apply G.
Qed.

Lemma no_call_after_unsubscribe : forall tbl ps ts post pre t h obs t' v,
  lock_table_ok tbl = true -> progs_in_scope ps = true ->
  clog (crun tbl (cr_init ps) ts) = post ++ CEffect t (RUnsub h) :: pre ->
  handle_obs (rt (crun tbl (cr_init ps) ts)) h = Some obs ->
  ~ In (CCall t' obs v) post.
Proof.
  intros tbl ps ts post pre t h obs t' v TB PS Hlog Hobs.
  pose proof (reach tbl ps ts TB PS) as [G _]. set (s := crun tbl (cr_init ps) ts) in *.
  pose proof (g_u1 _ G) as U1. rewrite Hlog in U1.
  unfold handle_obs in Hobs. destruct (nth_error (rhandles (rt s)) h) as [[k o]|] eqn:E; cbn in Hobs; [|discriminate].
  inversion Hobs; subst o.
  assert (obs = h) by (eapply (fi_h _ (proj2 (g_rt _ G))); exact E). subst obs.
  eapply nocall_split; eauto.
Qed.

Lemma unlocked_unsubscribe_refuted : exists ps ts t t' s' o,
  let tbl := mkLT MRead MRead MRead MWrite MWrite MNone in
  cstep tbl (crun tbl (cr_init ps) ts) t = Some s' /\
  In (CEffect t o) (firstn (length (clog s') - length (clog (crun tbl (cr_init ps) ts))) (clog s')) /\
  t' <> t /\ inside_notify (crun tbl (cr_init ps) ts) t'.
Proof.
  exists [[RSubscribe [8%Z]; RNotify [LStr 8%Z] 5%Z]; [RUnsub 0]], [0; 0], 1, 0.
  exists (match cstep (mkLT MRead MRead MRead MWrite MWrite MNone)
                  (crun (mkLT MRead MRead MRead MWrite MWrite MNone)
                        (cr_init [[RSubscribe [8%Z]; RNotify [LStr 8%Z] 5%Z]; [RUnsub 0]]) [0; 0]) 1 with
          | Some x => x | None => cr_init [] end).
  exists (RUnsub 0). cbv zeta. split; [vm_compute; reflexivity|]. split; [|split].
  - vm_compute. right. left. reflexivity.
  - discriminate.
  - exists (RNotify [LStr 8%Z] 5%Z), 0. vm_compute. reflexivity.
Qed.
