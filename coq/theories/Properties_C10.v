From Coq Require Import ZArith.
From Tulz Require Import SubjectModel.
Theorem placeholder_C10 : 1 = 1. Proof. reflexivity. Qed.
Print Assumptions placeholder_C10.
