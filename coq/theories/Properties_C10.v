(* Properties_C10.v — Subject tolerates callbacks that change it during notify.
   Only statements, each closed by [exact <lemma of SubjectProofs>], and Print Assumptions.

   SubjectModel.v is the pointer-level transcription of Subject.h (observer heap, cached raw
   pointers in notify(), destruction, call stack); SubjectSpec.v is the specification on
   plain subscription records, in which by construction a subscription removed before its
   turn is skipped, a subscription added during a round is not part of it, and the round
   continues for every other member of the snapshot. Callbacks are arbitrary scripts of
   subscribe / unsubscribe / mute / unmute / invalidate (any target, itself included) /
   notify actions; the nesting of notifications is bounded by the fuel. *)
From Coq Require Import List ZArith Bool Lia.
From Tulz Require Import Common SubjectModel SubjectSpec SubjectProofs.
Import ListNotations.
Local Open Scope Z_scope.

(* THE property: for every script table, every fuel, every number of Subjects and every
   program of operations, the pointer-level model produces exactly the trace of the
   specification — the same invocations (observer, argument) in the same order, the same
   handle validity / mute flags, the same hasSubscriptions(), the same exceptions — and in
   particular fails only where the specification fails (fuel exhausted). *)
Theorem C10_refines_spec : forall scripts fuel nsubj ops,
  c_trace true scripts fuel (world0 nsubj) ops = a_trace scripts fuel (aworld0 nsubj) ops.
Proof. exact subject_refines_spec. Qed.
Print Assumptions C10_refines_spec.

(* memory safety: no operation ever calls, queries or destroys an observer object that is
   already destroyed or whose callback is executing; the only possible failure is running
   out of fuel (nesting deeper than the bound) *)
Theorem C10_memory_safe : forall scripts fuel nsubj ops,
  Forall (fun x => x = Rejected \/ (exists v, x = Done v) \/ x = Failed OutOfFuel)
         (c_trace true scripts fuel (world0 nsubj) ops).
Proof. exact subject_memory_safe. Qed.
Print Assumptions C10_memory_safe.

(* The pinned upstream code (observers destroyed at once, observer->isValid() read after the
   call) is refuted: an observer whose callback unsubscribes its own subscription. *)
Theorem C10_upstream_refuted : exists scripts ops,
  In (Failed UseAfterFree) (c_trace false scripts 6 (world0 1) ops).
Proof. exact upstream_self_unsubscribe. Qed.
Print Assumptions C10_upstream_refuted.

(* the behaviours the property names, on the specification (and hence on the model):
   observer 0 unsubscribes observer 1 before its turn (1 is skipped, 2 still runs);
   observer 0 subscribes a new observer during the round (first invoked in the next round);
   observer 0 unsubscribes itself and notifies again (nested round without it) *)
Example C10_skipped_when_removed :
  map (fun x => match x with Done v => v_calls v | _ => [] end)
      (a_trace [[AUnsub 1]; []] 6 (aworld0 1)
         [OAct (ASub 0 0); OAct (ASub 0 1); OAct (ASub 0 1); OAct (ANotify 0 7)])
  = [[]; []; []; [(0%nat, 7); (2%nat, 7)]].
Proof. vm_compute. reflexivity. Qed.
Example C10_added_runs_next_round :
  map (fun x => match x with Done v => v_calls v | _ => [] end)
      (a_trace [[ASub 0 1]; []] 6 (aworld0 1) [OAct (ASub 0 0); OAct (ANotify 0 7); OAct (ANotify 0 8)])
  = [[]; [(0%nat, 7)]; [(0%nat, 8); (1%nat, 8)]].
Proof. vm_compute. reflexivity. Qed.
Example C10_self_unsubscribe_and_renotify :
  c_trace true [[AUnsub 0; ANotify 0 9]; []] 6 (world0 1) [OAct (ASub 0 0); OAct (ASub 0 1); OAct (ANotify 0 7)]
  = a_trace [[AUnsub 0; ANotify 0 9]; []] 6 (aworld0 1) [OAct (ASub 0 0); OAct (ASub 0 1); OAct (ANotify 0 7)]
  /\ map (fun x => match x with Done v => v_calls v | _ => [] end)
      (a_trace [[AUnsub 0; ANotify 0 9]; []] 6 (aworld0 1) [OAct (ASub 0 0); OAct (ASub 0 1); OAct (ANotify 0 7)])
  = [[]; []; [(0%nat, 7); (1%nat, 9); (1%nat, 7)]].
Proof. vm_compute. split; reflexivity. Qed.
