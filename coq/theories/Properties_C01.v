(* Properties_C01.v — rwp::Resource: a writer never shares the lock.
   Only statements, each closed by [exact <lemma of ResourceProofs>], and Print Assumptions. *)
From Coq Require Import List ZArith Bool Lia.
From Tulz Require Import RaceModel AtomicSections.
From TulzGen Require Import Accesses.
From Tulz Require Import Common ResourceModel ResourceInv ResourceProofs.
Import ListNotations.
Local Open Scope Z_scope.

(* The batch-counting invariant holds in every reachable state: any number of threads, any
   sequence of labels (labels that are not enabled are skipped, so this covers exactly the
   executions of the model), spurious wake-ups included. *)
Theorem C01_invariant : forall n ls, RInv (run true (init n) ls).
Proof. exact rinv_reachable. Qed.
Print Assumptions C01_invariant.

(* THE property: in every reachable state, a thread that holds the write lock is the only
   holder — no other thread holds a read or a write lock. *)
Theorem C01_writer_exclusive : forall n ls t1 t2 o,
  t1 <> t2 ->
  nth_error (thr (run true (init n) ls)) t1 = Some (Holding Wr) ->
  nth_error (thr (run true (init n) ls)) t2 <> Some (Holding o).
Proof. exact writer_exclusive. Qed.
Print Assumptions C01_writer_exclusive.

(* unlock()'s assert(m_activeOp == opType) never fails *)
Theorem C01_assert_holds : forall n ls, assert_failed (run true (init n) ls) = false.
Proof. exact assert_holds. Qed.
Print Assumptions C01_assert_holds.

(* The pinned upstream code (an admitted waiter counts itself only when it wakes up) violates
   the property: kernel-checked witness, replayed on the implementation (corpus/C01). *)
Theorem C01_upstream_refuted : exists ls t1 t2 o,
  t1 <> t2 /\ nth_error (thr (run false (init 3) ls)) t1 = Some (Holding Wr)
           /\ nth_error (thr (run false (init 3) ls)) t2 = Some (Holding o).
Proof. exact upstream_overlap. Qed.
Print Assumptions C01_upstream_refuted.

(* non-vacuity: a state with a parked writer behind two readers, and a state in which an
   admitted reader is still asleep while its sibling has already left, are reachable *)
Example C01_nonvacuous :
  map tstate_z (thr (run true (init 4)
     [Req 0 Wr; Req 1 Rd; Req 2 Rd; Req 3 Wr; Rel 0; Notify 0; Wake 1; Rel 1])) = [0; 0; 2; 2]
  /\ activeCount (rs (run true (init 4)
     [Req 0 Wr; Req 1 Rd; Req 2 Rd; Req 3 Wr; Rel 0; Notify 0; Wake 1; Rel 1])) = 1.
Proof. vm_compute. split; reflexivity. Qed.

(* The premise of the atomic-step model, checked on the access rows the translator extracted from the
   CURRENT source (TulzGen.Accesses, regenerated on every run): every access to the Resource's state in
   Resource::lock / Resource::unlock (and the helpers they call) is made holding m_mutex, hence no two
   threads are ever inside those sections at once (AtomicSections.v). *)
Theorem C01_sections_atomic : forall n os t1 t2 a1 a2,
  t1 <> t2 -> In a1 TulzGen.Accesses.extracted_accesses -> In a2 TulzGen.Accesses.extracted_accesses ->
  RaceModel.a_comp a1 = resource_component -> RaceModel.a_comp a2 = resource_component ->
  RaceModel.can_perform (RaceModel.lrun (RaceModel.linit n) os) t1 a1 ->
  RaceModel.can_perform (RaceModel.lrun (RaceModel.linit n) os) t2 a2 -> False.
Proof. apply (AtomicSections.sections_exclusive resource_component resource_mutex). vm_compute. reflexivity. Qed.
Print Assumptions C01_sections_atomic.
