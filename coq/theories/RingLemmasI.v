(* RingLemmasI.v — per-opcode step lemmas for opcodes 2..8 (element-level operations). *)
From Coq Require Import List ZArith Bool Lia ZifyBool Permutation.
From Tulz Require Import Common RingModel RingInv RingLemmasA RingLemmasB RingLemmasC RingLemmasD
  RingLemmasE RingLemmasF RingLemmasG RingLemmasH.
Import ListNotations.
Local Open Scope Z_scope.

Lemma step_op2 ow e b v : wf_env e -> step_ok ow e [2; b; v].
Proof.
  intros W. unfold step_ok, ring_step, deque_step. rewrite env_get_u_abs.
  destruct (env_get_u e b) as [r|] eqn:G; cbn [option_map]; [|apply step_none; auto].
  destruct (env_get_u_some e b r W G) as (G' & Wr & Hb).
  pose proof (emplace_front_spec ow r v Wr) as S.
  destruct (wf_contents r Wr) as [_ HZ].
  unfold d_push_front; cbn [abs ditems dcap]. rewrite HZ.
  destruct (emplace_front ow r v) as [[r' evs]|].
  - destruct S as (Hg & W' & Hcap & Hat & S). rewrite Hat. cbn [slot_z].
    destruct (size r <? cap r) eqn:Hlt.
    + destruct S as [Hi EF].
      apply (step_set1 e b (Some r) _ _ _ _ _ _ [v] []);
        [exact W | lia | exact G' | left; exact W' | | reflexivity | exact EF | ].
      * unfold abs. rewrite Hi, Hcap. reflexivity.
      * cbn [oitems app]. rewrite Hi. perm_solve.
    + rewrite orb_false_r in Hg. subst ow. destruct S as (t & x & Hi & Hi' & EF).
      rewrite Hi. rewrite rev_unit, removelast_app1. cbn [firstn].
      apply (step_set1 e b (Some r) _ _ _ _ _ _ [v] []);
        [exact W | lia | exact G' | left; exact W' | | reflexivity | exact EF | ].
      * unfold abs. rewrite Hi', Hcap. reflexivity.
      * cbn [oitems app]. rewrite Hi, Hi'. perm_solve.
  - apply orb_false_elim in S. destruct S as [-> ->]. apply step_none; auto.
Qed.

Lemma step_op3 ow e b : wf_env e -> step_ok ow e [3; b].
Proof.
  intros W. unfold step_ok, ring_step, deque_step. rewrite env_get_u_abs.
  destruct (env_get_u e b) as [r|] eqn:G; cbn [option_map]; [|apply step_none; auto].
  destruct (env_get_u_some e b r W G) as (G' & Wr & Hb).
  pose proof (pop_back_spec r Wr) as S.
  unfold d_pop_back; cbn [abs ditems dcap].
  destruct (pop_back r) as [[[r' sl] evs]|].
  - destruct S as (Hnz & x & t & Hsl & W' & Hcap & Hi & Hi' & EF).
    rewrite Hi, rev_unit, removelast_app1. subst sl. cbn [slot_z].
    apply (step_set1 e b (Some r) _ _ _ _ _ _ [] [x]);
      [exact W | lia | exact G' | left; exact W' | | reflexivity | exact EF | ].
    + unfold abs. rewrite Hi', Hcap. reflexivity.
    + cbn [oitems app]. rewrite Hi, Hi'. perm_solve.
  - rewrite (items_nil_of_size0 r Wr S). cbn [rev]. apply step_none; auto.
Qed.

Lemma step_op4 ow e b : wf_env e -> step_ok ow e [4; b].
Proof.
  intros W. unfold step_ok, ring_step, deque_step. rewrite env_get_u_abs.
  destruct (env_get_u e b) as [r|] eqn:G; cbn [option_map]; [|apply step_none; auto].
  destruct (env_get_u_some e b r W G) as (G' & Wr & Hb).
  pose proof (pop_front_spec r Wr) as S.
  unfold d_pop_front; cbn [abs ditems dcap].
  destruct (pop_front r) as [[[r' sl] evs]|].
  - destruct S as (Hnz & x & t & Hsl & W' & Hcap & Hi & Hi' & EF).
    rewrite Hi. subst sl. cbn [slot_z].
    apply (step_set1 e b (Some r) _ _ _ _ _ _ [] [x]);
      [exact W | lia | exact G' | left; exact W' | | reflexivity | exact EF | ].
    + unfold abs. rewrite Hi', Hcap. reflexivity.
    + cbn [oitems app]. rewrite Hi, Hi'. perm_solve.
  - rewrite (items_nil_of_size0 r Wr S). apply step_none; auto.
Qed.

Lemma step_op5 ow e b n : wf_env e -> step_ok ow e [5; b; n].
Proof.
  intros W. unfold step_ok, ring_step, deque_step. rewrite env_get_u_abs.
  destruct (env_get_u e b) as [r|] eqn:G; cbn [option_map]; [|apply step_none; auto].
  destruct (env_get_u_some e b r W G) as (G' & Wr & Hb).
  pose proof (resize_spec r n Wr) as S.
  unfold d_resize, d_resize_removed; cbn [abs ditems dcap].
  destruct (resize fixed_variant r n) as [[r' evs]|].
  - destruct S as (Hn & W' & Hcap & Hi & EF).
    replace (n <=? 0) with false by lia.
    apply (step_set1 e b (Some r) _ _ _ _ _ _ [] []);
      [exact W | lia | exact G' | left; exact W' | | reflexivity | exact EF | ].
    + unfold abs. rewrite Hi, Hcap. reflexivity.
    + cbn [oitems app]. rewrite Hi.
      rewrite <- (firstn_skipn (Z.to_nat n) (items r)) at 1. apply Permutation_app_comm.
  - replace (n <=? 0) with true by lia. apply step_none; auto.
Qed.

Lemma index_spec (r : ring Z) i : wf r ->
  match index r i with
  | Some (s, evs) => 0 <= i < size r /\ s = Live (nth (Z.to_nat i) (items r) 0) /\ evs = []
  | None => ~ (0 <= i < size r)
  end.
Proof.
  intros W. unfold index.
  destruct ((0 <=? i) && (i <? size r)) eqn:Hi; [|lia].
  assert (Hr : 0 <= i < size r) by lia.
  destruct (wf_contents r W) as [HC HZ].
  split; [exact Hr|]. split.
  - unfold at_. rewrite <- contents_nth by exact Hr. rewrite HC.
    rewrite (nth_indep _ Raw (Live 0)).
    + apply (map_nth (@Live Z)).
    + rewrite map_length. unfold Zlen in HZ. lia.
  - apply ub_in. rewrite (wf_len r W). unfold dataIndex. apply modCap_range.
    pose proof (wf_cap r W). lia.
Qed.

Lemma step_op8 ow e b i : wf_env e -> step_ok ow e [8; b; i].
Proof.
  intros W. unfold step_ok, ring_step, deque_step. rewrite env_get_u_abs.
  destruct (env_get_u e b) as [r|] eqn:G; cbn [option_map]; [|apply step_none; auto].
  destruct (env_get_u_some e b r W G) as (G' & Wr & Hb).
  pose proof (index_spec r i Wr) as S.
  destruct (wf_contents r Wr) as [_ HZ].
  cbn [abs ditems dcap]. rewrite HZ.
  destruct (index r i) as [[sl evs]|].
  - destruct S as (Hr & -> & ->). replace ((0 <=? i) && (i <? size r)) with true by lia.
    cbn [slot_z]. apply step_same; auto.
  - replace ((0 <=? i) && (i <? size r)) with false by lia. apply step_none; auto.
Qed.

Lemma step_op6 ow e b : wf_env e -> step_ok ow e [6; b].
Proof.
  intros W. unfold step_ok, ring_step, deque_step. rewrite env_get_u_abs.
  destruct (env_get_u e b) as [r|] eqn:G; cbn [option_map]; [|apply step_none; auto].
  destruct (env_get_u_some e b r W G) as (G' & Wr & Hb).
  pose proof (index_spec r 0 Wr) as S.
  destruct (wf_contents r Wr) as [_ HZ].
  cbn [abs ditems dcap]. unfold front.
  destruct (size r =? 0) eqn:Hs.
  - rewrite (items_nil_of_size0 r Wr) by lia. apply step_none; auto.
  - destruct (index r 0) as [[sl evs]|].
    + destruct S as (Hr & -> & ->). destruct (items r) as [|x t].
      * unfold Zlen in HZ; simpl in HZ; lia.
      * cbn [slot_z nth Z.to_nat]. apply step_same; auto.
    + exfalso. apply S. pose proof (wf_size r Wr). lia.
Qed.

Lemma nth_last_rev (l : list Z) : l <> [] ->
  exists t, rev l = nth (length l - 1) l 0 :: t.
Proof.
  intros H. destruct (exists_last H) as (t & x & ->).
  exists (rev t). rewrite rev_unit. f_equal.
  rewrite app_length. cbn [length]. replace (length t + 1 - 1)%nat with (length t) by lia.
  rewrite app_nth2 by lia. rewrite Nat.sub_diag. reflexivity.
Qed.

Lemma step_op7 ow e b : wf_env e -> step_ok ow e [7; b].
Proof.
  intros W. unfold step_ok, ring_step, deque_step. rewrite env_get_u_abs.
  destruct (env_get_u e b) as [r|] eqn:G; cbn [option_map]; [|apply step_none; auto].
  destruct (env_get_u_some e b r W G) as (G' & Wr & Hb).
  pose proof (index_spec r (size r - 1) Wr) as S.
  destruct (wf_contents r Wr) as [_ HZ].
  cbn [abs ditems dcap]. unfold back.
  destruct (size r =? 0) eqn:Hs.
  - rewrite (items_nil_of_size0 r Wr) by lia. cbn [rev]. apply step_none; auto.
  - destruct (index r (size r - 1)) as [[sl evs]|].
    + destruct S as (Hr & -> & ->).
      assert (Hne : items r <> []).
      { intros E. rewrite E in HZ. unfold Zlen in HZ; simpl in HZ; lia. }
      destruct (nth_last_rev (items r) Hne) as [t Ht]. rewrite Ht.
      replace (Z.to_nat (size r - 1)) with (length (items r) - 1)%nat by (unfold Zlen in HZ; lia).
      cbn [slot_z]. apply step_same; auto.
    + exfalso. apply S. pose proof (wf_size r Wr). lia.
Qed.
