(* PathProofs.v — proofs about PathModel.v (string operations and the filesystem model). *)
From Coq Require Import List ZArith Bool Lia Arith.
From Tulz Require Import Common PathModel.
Import ListNotations.
Local Open Scope Z_scope.

Local Arguments is_sep : simpl never.

(* ---- Zlen ------------------------------------------------------------------------------------ *)
Lemma Zlen_nil : forall A, @Zlen A [] = 0.
Proof. reflexivity. Qed.
Lemma Zlen_cons : forall A (x : A) l, Zlen (x :: l) = Zlen l + 1.
Proof. intros. unfold Zlen. simpl length. lia. Qed.
Lemma Zlen_app : forall A (a b : list A), Zlen (a ++ b) = Zlen a + Zlen b.
Proof. intros. unfold Zlen. rewrite app_length. lia. Qed.
Lemma Zlen_nonneg : forall A (l : list A), 0 <= Zlen l.
Proof. intros. unfold Zlen. lia. Qed.

Lemma skipn_len_app : forall A (a b : list A), skipn (length a) (a ++ b) = b.
Proof. induction a; simpl; auto. Qed.
Lemma firstn_len_app : forall A (a b : list A), firstn (length a) (a ++ b) = a.
Proof. induction a; simpl; intros; f_equal; auto. Qed.

(* ---- find_last_of ---------------------------------------------------------------------------- *)
Lemma lsu_app : forall a b i bound acc,
  last_sep_upto (a ++ b) i bound acc = last_sep_upto b (i + Zlen a) bound (last_sep_upto a i bound acc).
Proof.
  induction a as [|c a IH]; intros; simpl.
  - replace (i + Zlen (@nil Z)) with i by (rewrite Zlen_nil; lia). reflexivity.
  - rewrite IH, Zlen_cons. replace (i + 1 + Zlen a) with (i + (Zlen a + 1)) by lia. reflexivity.
Qed.

Lemma lsu_sep_free : forall n i bound acc, sep_free n = true -> last_sep_upto n i bound acc = acc.
Proof.
  unfold sep_free. induction n as [|c n IH]; intros i bound acc H; simpl in *.
  - reflexivity.
  - rewrite negb_true_iff, orb_false_iff in H. destruct H as [H1 H2].
    rewrite H1. simpl. apply IH. rewrite H2. reflexivity.
Qed.

Lemma lsu_range : forall s i acc r,
  last_sep_upto s i None acc = Some r -> acc = Some r \/ i <= r < i + Zlen s.
Proof.
  induction s as [|c s IH]; intros i acc r H; simpl in H.
  - left; auto.
  - rewrite Zlen_cons. pose proof (Zlen_nonneg _ s). apply IH in H. destruct H as [H|H].
    + destruct (is_sep c && true).
      * inversion H; subst. right; lia.
      * left; auto.
    + right; lia.
Qed.

Lemma find_last_of_range : forall s i, find_last_of s None = Some i -> 0 <= i < Zlen s.
Proof.
  unfold find_last_of. intros s i H. apply lsu_range in H. destruct H as [H|H]; [discriminate|lia].
Qed.

Lemma find_last_of_mid : forall a n, sep_free n = true ->
  find_last_of (a ++ [SLASH] ++ n) None = Some (Zlen a).
Proof.
  intros a n H. unfold find_last_of. rewrite lsu_app, lsu_app. rewrite lsu_sep_free by auto.
  simpl. replace (is_sep SLASH) with true by reflexivity. simpl. f_equal; lia.
Qed.

Lemma erase_from_ok : forall s pos, 0 <= pos <= Zlen s ->
  erase_from s pos = Some (firstn (Z.to_nat pos) s).
Proof.
  intros. unfold erase_from.
  destruct (0 <=? pos) eqn:E1; [|apply Z.leb_gt in E1; lia].
  destruct (pos <=? Zlen s) eqn:E2; [|apply Z.leb_gt in E2; lia].
  reflexivity.
Qed.

(* ---- join ------------------------------------------------------------------------------------- *)
Lemma join_form : forall d n, d <> [] -> n <> [] -> sep_free n = true ->
  join d n = strip_trailing d ++ [SLASH] ++ n.
Proof.
  intros d n Hd Hn Hs.
  assert (Hj : join d n = if is_absolute n then n
                          else if negb (last d 0 =? SLASH) then d ++ [SLASH] ++ n else d ++ n).
  { destruct d; [congruence|reflexivity]. }
  rewrite Hj.
  assert (Ha : is_absolute n = false).
  { destruct n as [|x n0]; [congruence|]. unfold sep_free in Hs. simpl in Hs.
    rewrite negb_true_iff, orb_false_iff in Hs. destruct Hs as [Hs _].
    unfold is_sep in Hs. rewrite orb_false_iff in Hs. destruct Hs as [Hs _]. simpl. exact Hs. }
  rewrite Ha. unfold strip_trailing.
  destruct (last d 0 =? SLASH) eqn:E; simpl negb; cbv iota.
  - apply Z.eqb_eq in E.
    rewrite (app_removelast_last 0 Hd) at 1. rewrite E. rewrite <- app_assoc. reflexivity.
  - reflexivity.
Qed.

Lemma Zlen_mid : forall (a n : list Z), Zlen (a ++ [SLASH] ++ n) = Zlen a + 1 + Zlen n.
Proof. intros. rewrite !Zlen_app. change (Zlen [SLASH]) with 1. lia. Qed.

Lemma Zlen_pos : forall A (n : list A), n <> [] -> 0 < Zlen n.
Proof. intros A n H. destruct n; [congruence|]. rewrite Zlen_cons. pose proof (Zlen_nonneg _ n). lia. Qed.

Lemma name_of_join : forall d n, d <> [] -> n <> [] -> sep_free n = true -> get_path_name (join d n) = n.
Proof.
  intros d n Hd Hn Hs. rewrite join_form by auto.
  set (a := strip_trailing d).
  pose proof (Zlen_mid a n) as Hlen. pose proof (Zlen_pos _ n Hn) as Hpos. pose proof (Zlen_nonneg _ a) as Ha.
  unfold get_path_name. cbv zeta. rewrite find_last_of_mid by auto.
  unfold size_minus at 1.
  destruct (1 <=? Zlen (a ++ [SLASH] ++ n)) eqn:E1; [|apply Z.leb_gt in E1; lia].
  destruct (Zlen a =? Zlen (a ++ [SLASH] ++ n) - 1) eqn:E2; [apply Z.eqb_eq in E2; lia|].
  unfold erase_front.
  replace (Z.to_nat (Zlen a + 1)) with (length (a ++ [SLASH])).
  - rewrite app_assoc. apply skipn_len_app.
  - rewrite app_length. simpl length. unfold Zlen. lia.
Qed.

Lemma parent_of_join : forall d n, d <> [] -> n <> [] -> sep_free n = true ->
  get_parent (join d n) = Some (strip_trailing d).
Proof.
  intros d n Hd Hn Hs. rewrite join_form by auto.
  set (a := strip_trailing d).
  pose proof (Zlen_mid a n) as Hlen. pose proof (Zlen_pos _ n Hn) as Hpos. pose proof (Zlen_nonneg _ a) as Ha.
  unfold get_parent. cbv zeta. rewrite find_last_of_mid by auto.
  unfold size_minus.
  destruct (1 <=? Zlen (a ++ [SLASH] ++ n)) eqn:E1; [|apply Z.leb_gt in E1; lia].
  destruct (Zlen a =? Zlen (a ++ [SLASH] ++ n) - 1) eqn:E2; [apply Z.eqb_eq in E2; lia|].
  rewrite erase_from_ok by lia. f_equal.
  replace (Z.to_nat (Zlen a)) with (length a) by (unfold Zlen; lia).
  apply firstn_len_app.
Qed.

Lemma join_absolute : forall p q, is_absolute q = true \/ p = [] -> join p q = q.
Proof.
  intros p q [H|H].
  - destruct p; simpl; [reflexivity|]. rewrite H. reflexivity.
  - subst. reflexivity.
Qed.

Lemma parent_total : forall s, get_parent s <> None.
Proof.
  intros s. unfold get_parent. cbv zeta.
  destruct (find_last_of s None) as [i|] eqn:E.
  - pose proof (find_last_of_range _ _ E) as Hi.
    unfold size_minus. destruct (1 <=? Zlen s) eqn:E1; [|apply Z.leb_gt in E1; lia].
    destruct (i =? Zlen s - 1) eqn:E2.
    + rewrite erase_from_ok by lia.
      destruct (find_last_of (firstn (Z.to_nat i) s) None) as [j|] eqn:E3.
      * apply find_last_of_range in E3. rewrite erase_from_ok by lia. discriminate.
      * discriminate.
    + rewrite erase_from_ok by lia. discriminate.
  - simpl. discriminate.
Qed.

(* ---- filesystem: well-formedness ---------------------------------------------------------------- *)
Fixpoint wf_entries (l : list (Z * fsnode)) : Prop :=
  match l with
  | [] => True
  | e :: l' => 0 <= fst e /\ match l' with [] => True | d :: _ => fst e < fst d end /\
               fs_wf (snd e) /\ wf_entries l'
  end.

Lemma fs_wf_dir : forall es, fs_wf (FDir es) <-> wf_entries es.
Proof.
  induction es as [|e l IH]; simpl in *; [tauto|]. rewrite IH. tauto.
Qed.

Lemma wf_entries_cons : forall e l,
  0 <= fst e -> match l with [] => True | d :: _ => fst e < fst d end -> fs_wf (snd e) -> wf_entries l ->
  wf_entries (e :: l).
Proof. intros e l H0 H1 H2 H3. exact (conj H0 (conj H1 (conj H2 H3))). Qed.

Lemma wf_entries_inv : forall e l, wf_entries (e :: l) ->
  0 <= fst e /\ match l with [] => True | d :: _ => fst e < fst d end /\ fs_wf (snd e) /\ wf_entries l.
Proof. intros e l H. exact H. Qed.

Lemma wf_entries_lt : forall l e, wf_entries (e :: l) -> Forall (fun d => fst e < fst d) l.
Proof.
  induction l as [|d l IH]; intros e H.
  - constructor.
  - apply wf_entries_inv in H. destruct H as (H0 & Hlt & Hwe & Hl). constructor; auto.
    specialize (IH d Hl). eapply Forall_impl; [|exact IH]. intros x Hx. simpl in *. lia.
Qed.

Lemma wf_entries_names : forall l, wf_entries l -> Forall (fun e => 0 <= fst e) l.
Proof.
  induction l as [|e l IH]; intros H; constructor; apply wf_entries_inv in H; destruct H as (?&?&?&?); auto.
Qed.

Lemma wf_entries_children : forall l, wf_entries l -> Forall (fun e => fs_wf (snd e)) l.
Proof.
  induction l as [|e l IH]; intros H; constructor; apply wf_entries_inv in H; destruct H as (?&?&?&?); auto.
Qed.

Lemma wf_find : forall es e, wf_entries es -> In e es -> find (fun x => fst x =? fst e) es = Some e.
Proof.
  induction es as [|a l IH]; intros e Hwf Hin.
  - inversion Hin.
  - simpl. destruct Hin as [->|Hin].
    + rewrite Z.eqb_refl. reflexivity.
    + pose proof (wf_entries_lt _ _ Hwf) as Hlt. rewrite Forall_forall in Hlt. specialize (Hlt _ Hin).
      destruct (fst a =? fst e) eqn:E; [apply Z.eqb_eq in E; lia|].
      apply IH; auto. apply wf_entries_inv in Hwf. tauto.
Qed.

Lemma wf_nodup : forall es, wf_entries es -> NoDup (map fst es).
Proof.
  induction es as [|a l IH]; intros Hwf; simpl; constructor.
  - intro Hin. apply in_map_iff in Hin. destruct Hin as (d & Hd & Hin).
    pose proof (wf_entries_lt _ _ Hwf) as Hlt. rewrite Forall_forall in Hlt. specialize (Hlt _ Hin). lia.
  - apply IH. apply wf_entries_inv in Hwf. tauto.
Qed.

(* ---- lookup --------------------------------------------------------------------------------------- *)
Lemma lookup_app : forall p q fs,
  lookup fs (p ++ q) = match lookup fs p with Some n => lookup n q | None => None end.
Proof.
  induction p as [|k p IH]; intros q fs; simpl.
  - reflexivity.
  - destruct fs as [sz|es]; auto. destruct (find _ es) as [[k' c]|]; auto.
Qed.

Lemma lookup_wf : forall p fs n, fs_wf fs -> lookup fs p = Some n -> fs_wf n.
Proof.
  induction p as [|k p IH]; intros fs n Hwf H; simpl in H.
  - inversion H; subst; auto.
  - destruct fs as [sz|es]; [discriminate|].
    destruct (find _ es) as [[k' c]|] eqn:E; [|discriminate].
    apply find_some in E. destruct E as [Hin _].
    apply fs_wf_dir in Hwf. apply wf_entries_children in Hwf. rewrite Forall_forall in Hwf.
    eapply IH; [|exact H]. apply (Hwf _ Hin).
Qed.

Lemma filter_nonneg : forall l, Forall (fun k => 0 <= k) l ->
  filter (fun n => negb ((n =? DOTNAME) || (n =? DOTDOT))) l = l.
Proof.
  induction 1 as [|x l Hx Hl IH]; cbn [filter]; auto.
  destruct (x =? DOTNAME) eqn:E1; [apply Z.eqb_eq in E1; unfold DOTNAME in E1; lia|].
  destruct (x =? DOTDOT) eqn:E2; [apply Z.eqb_eq in E2; unfold DOTDOT in E2; lia|].
  simpl. f_equal; auto.
Qed.

Lemma list_children_spec : forall fs p es,
  fs_wf fs -> lookup fs p = Some (FDir es) ->
  list_children fs p = inr (map fst es) /\ NoDup (map fst es) /\
  ~ In DOTNAME (map fst es) /\ ~ In DOTDOT (map fst es).
Proof.
  intros fs p es Hwf Hl. pose proof (lookup_wf _ _ _ Hwf Hl) as Hd. apply fs_wf_dir in Hd.
  pose proof (wf_entries_names _ Hd) as Hn. rewrite Forall_forall in Hn.
  split; [|split; [|split]].
  - unfold list_children. rewrite Hl. unfold readdir. f_equal.
    cbn [filter]. change (DOTNAME =? DOTNAME) with true. change (DOTDOT =? DOTNAME) with false.
    change (DOTDOT =? DOTDOT) with true. cbn [orb negb].
    apply filter_nonneg. apply Forall_forall. intros k Hk. apply in_map_iff in Hk.
    destruct Hk as (e & <- & Hin). auto.
  - apply wf_nodup; auto.
  - intro Hin. apply in_map_iff in Hin. destruct Hin as (e & He & Hin). apply Hn in Hin.
    unfold DOTNAME in He. lia.
  - intro Hin. apply in_map_iff in Hin. destruct Hin as (e & He & Hin). apply Hn in Hin.
    unfold DOTDOT in He. lia.
Qed.

Lemma kinds_spec : forall fs p,
  p_exists fs p = p_is_file fs p || p_is_dir fs p /\ p_is_file fs p && p_is_dir fs p = false.
Proof.
  intros. unfold p_is_file, p_exists, p_is_dir. destruct (lookup fs p) as [[sz|es]|]; simpl; auto.
Qed.

Lemma visitor_restores : forall fs cwd p, p_is_dir fs cwd = true -> snd (visit_and_restore fs cwd p) = cwd.
Proof.
  intros fs cwd p H. unfold visit_and_restore, chdir. simpl. rewrite H. reflexivity.
Qed.

(* ---- size ----------------------------------------------------------------------------------------- *)
Definition size_step (f : nat) (fs : fsnode) (p : list Z) :=
  fun (acc : option (perr + Z)) (nm : Z) =>
    match acc with
    | Some (inr total) =>
        match p_size f fs (p ++ [nm]) with
        | Some (inr sz) => Some (inr (total + sz))
        | other => other
        end
    | other => other
    end.

Lemma p_size_S : forall f fs p,
  p_size (S f) fs p =
  if negb (p_exists fs p) then Some (inl NotFound)
  else if p_is_file fs p then
         match lookup fs p with Some (FFile sz) => Some (inr sz) | _ => Some (inl NotFound) end
       else match list_children fs p with
            | inl e => Some (inl e)
            | inr names => fold_left (size_step f fs p) names (Some (inr 0))
            end.
Proof. reflexivity. Qed.

Lemma size_missing : forall fs p fuel, lookup fs p = None -> p_size (S fuel) fs p = Some (inl NotFound).
Proof.
  intros fs p fuel H. rewrite p_size_S. unfold p_exists. rewrite H. reflexivity.
Qed.

Lemma height_pos : forall n, (1 <= height n)%nat.
Proof. destruct n; simpl; lia. Qed.

Lemma height_child : forall es e, In e es ->
  (height (snd e) <= fold_right Nat.max 0%nat (map (fun e : Z * fsnode => height (snd e)) es))%nat.
Proof.
  induction es as [|a l IH]; intros e Hin; [inversion Hin|].
  cbn [map fold_right]. destruct Hin as [->|Hin].
  - apply Nat.le_max_l.
  - etransitivity; [apply IH; exact Hin|apply Nat.le_max_r].
Qed.

Lemma size_is_total : forall fs p n fuel,
  fs_wf fs -> lookup fs p = Some n -> (height n <= fuel)%nat ->
  p_size fuel fs p = Some (inr (total_size n)).
Proof.
  intros fs p n fuel Hwf. revert p n. induction fuel as [|f IH]; intros p n Hl Hh.
  - pose proof (height_pos n). lia.
  - rewrite p_size_S. destruct n as [sz|es].
    + unfold p_is_file, p_exists, p_is_dir. rewrite Hl. reflexivity.
    + destruct (list_children_spec _ _ _ Hwf Hl) as [Hlc _].
      pose proof (lookup_wf _ _ _ Hwf Hl) as Hd. apply fs_wf_dir in Hd.
      unfold p_is_file, p_exists, p_is_dir. rewrite Hl. cbn [negb andb]. cbv iota.
      rewrite Hlc.
      assert (Haux : forall l acc, (forall e, In e l -> In e es) ->
                fold_left (size_step f fs p) (map fst l) (Some (inr acc)) =
                Some (inr (acc + fold_right Z.add 0 (map (fun e => total_size (snd e)) l)))).
      { induction l as [|e l IHl]; intros acc Hin; cbn [map fold_left fold_right].
        - f_equal. f_equal. lia.
        - assert (Hs : size_step f fs p (Some (inr acc)) (fst e) = Some (inr (acc + total_size (snd e)))).
          { unfold size_step. rewrite (IH (p ++ [fst e]) (snd e)).
            - reflexivity.
            - rewrite lookup_app, Hl. simpl.
              rewrite (wf_find es e Hd (Hin e (or_introl eq_refl))). destruct e; reflexivity.
            - simpl in Hh. pose proof (height_child es e (Hin e (or_introl eq_refl))). lia. }
          rewrite Hs. rewrite IHl by (intros; apply Hin; right; auto).
          f_equal. f_equal. lia. }
      rewrite (Haux es 0 (fun e H => H)). simpl. reflexivity.
Qed.

(* ---- create --------------------------------------------------------------------------------------- *)
Lemma insert_wf : forall es k c, wf_entries es -> 0 <= k -> fs_wf c -> (forall e, In e es -> fst e <> k) ->
  wf_entries (insert_entry es k c) /\
  (forall lb, lb < k -> match es with [] => True | d :: _ => lb < fst d end ->
              match insert_entry es k c with [] => True | d :: _ => lb < fst d end).
Proof.
  induction es as [|e l IH]; intros k c Hwf Hk Hc Hne.
  - cbn [insert_entry]. split.
    + apply wf_entries_cons; simpl; auto.
    + intros lb Hlb _. simpl. exact Hlb.
  - cbn [insert_entry]. destruct (k <? fst e) eqn:E.
    + apply Z.ltb_lt in E. split.
      * apply wf_entries_cons; simpl; auto.
      * intros lb Hlb _. simpl. exact Hlb.
    + apply Z.ltb_ge in E. assert (Hek : fst e <> k) by (apply Hne; left; auto).
      apply wf_entries_inv in Hwf. destruct Hwf as (H0 & Hh & Hce & Hl).
      destruct (IH k c Hl Hk Hc (fun e0 H => Hne e0 (or_intror H))) as [IH1 IH2]. split.
      * apply wf_entries_cons; auto. apply IH2; [lia|exact Hh].
      * intros lb _ Hlb. exact Hlb.
Qed.

Lemma map_wf : forall (g : Z * fsnode -> Z * fsnode) es,
  (forall e, fst (g e) = fst e) -> (forall e, fs_wf (snd e) -> fs_wf (snd (g e))) ->
  wf_entries es -> wf_entries (map g es).
Proof.
  induction es as [|e l IH]; intros Hf Hs Hwf; [exact I|].
  apply wf_entries_inv in Hwf. destruct Hwf as (H0 & Hh & Hce & Hl). cbn [map].
  apply wf_entries_cons.
  - rewrite Hf; auto.
  - destruct l as [|d l']; cbn [map]; auto. rewrite !Hf. auto.
  - apply Hs; auto.
  - apply IH; auto.
Qed.

Lemma create_cons2 : forall n k k2 p c,
  create n (k :: k2 :: p) c =
  match n with
  | FDir es =>
      match find (fun e => fst e =? k) es with
      | Some (_, d) => match create d (k2 :: p) c with
                       | Some d' => Some (FDir (map (fun e => if fst e =? k then (k, d') else e) es))
                       | None => None
                       end
      | None => None
      end
  | FFile _ => None
  end.
Proof. intros. destruct n; reflexivity. Qed.

Lemma create_wf : forall fs p c fs',
  fs_wf fs -> fs_wf c -> Forall (fun k => 0 <= k) p -> create fs p c = Some fs' -> fs_wf fs'.
Proof.
  intros fs p c. revert fs. induction p as [|k p IH]; intros fs fs' Hwf Hc Hp H.
  - discriminate.
  - destruct p as [|k2 p2].
    + simpl in H. destruct fs as [sz|es]; [discriminate|].
      destruct (existsb (fun e => fst e =? k) es) eqn:E; [discriminate|].
      inversion H; subst. apply fs_wf_dir. apply fs_wf_dir in Hwf.
      apply insert_wf; auto.
      * inversion Hp; auto.
      * intros e Hin Heq.
        assert (Ht : existsb (fun e => fst e =? k) es = true).
        { apply existsb_exists. exists e. split; auto. apply Z.eqb_eq; auto. }
        congruence.
    + rewrite create_cons2 in H. destruct fs as [sz|es]; [discriminate|].
      destruct (find (fun e => fst e =? k) es) as [[k' d]|] eqn:E; [|discriminate].
      destruct (create d (k2 :: p2) c) as [d'|] eqn:E2; [|discriminate].
      inversion H; subst. apply find_some in E. destruct E as [Hin _].
      apply fs_wf_dir in Hwf.
      assert (Hd : fs_wf d).
      { pose proof (wf_entries_children _ Hwf) as Hch. rewrite Forall_forall in Hch. apply (Hch _ Hin). }
      assert (Hd' : fs_wf d').
      { eapply IH; eauto. inversion Hp; auto. }
      apply fs_wf_dir. apply map_wf; auto.
      * intros e. destruct (fst e =? k) eqn:E; [apply Z.eqb_eq in E; simpl; auto|auto].
      * intros e He. destruct (fst e =? k); simpl; auto.
Qed.

(* join of a non-empty left operand and a relative right operand keeps both operands verbatim and puts
   exactly one '/' between them unless the left operand already ends in '/' *)
Lemma join_shape : forall p q, p <> [] -> is_absolute q = false ->
  join p q = p ++ (if last p 0 =? SLASH then [] else [SLASH]) ++ q.
Proof.
  intros p q Hp Hq. unfold join. destruct p as [|c p']; [contradiction|].
  rewrite Hq. destruct (last (c :: p') 0 =? SLASH); reflexivity.
Qed.

(* getPathName / getParentDirectory invent no bytes: the name is a suffix of the path string and the
   parent a prefix of it, for every string *)
Lemma name_is_suffix : forall s, exists pre, s = pre ++ get_path_name s.
Proof.
  intros s. unfold get_path_name, erase_front.
  eexists. symmetry. apply firstn_skipn.
Qed.

Lemma erase_from_prefix : forall s pos d, erase_from s pos = Some d -> exists rest, s = d ++ rest.
Proof.
  intros s pos d H. unfold erase_from in H.
  destruct ((0 <=? pos) && (pos <=? Zlen s)); [|discriminate].
  inversion H; subst. eexists. symmetry. apply firstn_skipn.
Qed.

Lemma parent_is_prefix : forall s d, get_parent s = Some d -> exists rest, s = d ++ rest.
Proof.
  intros s d H. unfold get_parent in H.
  set (sep := find_last_of s None) in *.
  set (strip := match sep, size_minus s 1 with Some i, Some e => i =? e | _, _ => false end) in *.
  assert (Hpath : forall path, (if strip then match sep with Some i => erase_from s i | None => Some s end else Some s) = Some path ->
                               exists r1, s = path ++ r1).
  { intros path Hp. destruct strip.
    - destruct sep as [i|].
      + eapply erase_from_prefix; eauto.
      + inversion Hp; subst. exists []. rewrite app_nil_r. reflexivity.
    - inversion Hp; subst. exists []. rewrite app_nil_r. reflexivity. }
  destruct (if strip then match sep with Some i => erase_from s i | None => Some s end else Some s) as [path|] eqn:P; [|discriminate].
  destruct (Hpath path eq_refl) as [r1 Hr1].
  destruct (if strip then find_last_of path None else sep) as [j|].
  - destruct (erase_from_prefix _ _ _ H) as [r2 Hr2].
    exists (r2 ++ r1). rewrite app_assoc, <- Hr2. exact Hr1.
  - inversion H; subst d. exists s. reflexivity.
Qed.

(* a bare name: its name is itself and its parent is the empty path *)
Lemma bare_name : forall n, sep_free n = true -> get_path_name n = n /\ get_parent n = Some [].
Proof.
  intros n Hn.
  assert (F : forall bound, find_last_of n bound = None).
  { intros bound. unfold find_last_of. apply lsu_sep_free. exact Hn. }
  split.
  - unfold get_path_name. rewrite !F.
    destruct (size_minus n 1); reflexivity.
  - unfold get_parent. rewrite F. reflexivity.
Qed.
