(* FileModel.v — executable model of src/File.cpp over a model of POSIX stdio (definitions only).

   The disk is a list of named entries (regular files with their bytes, directories). A FILE
   stream is (name, mode, position, end-of-file flag); fopen / fclose / fwrite / fread / fgetc /
   feof / fseek / ftell are modelled as on POSIX (text and binary modes are identical; append
   mode writes at the end whatever the position; seeking before 0 fails, seeking past the end
   is allowed and a later write fills the gap with zeros; glibc positions an append stream at
   the end when it is opened). Buffering is invisible because a file is never accessed through
   two streams at once. File.cpp's own logic — the existence / directory checks and mode
   strings of open(), read() (rewind, determine the size by fgetc-until-feof in text modes or
   by size() in binary modes, allocate, fread), size() (tell, seek to the end, tell, seek
   back) — is transcribed on top of these primitives. *)
From Coq Require Import List ZArith Bool Lia Arith.
From Tulz Require Import Common.
Import ListNotations.
Local Open Scope Z_scope.

Inductive fentry := EFile (bytes : list Z) | EDir.
Definition disk := list (Z * fentry).

Inductive fmode := ReadText | Read | WriteText | Write | AppendText | Append.
Definition is_write_mode (m : fmode) : bool := match m with ReadText | Read => false | _ => true end.
Definition is_append (m : fmode) : bool := match m with AppendText | Append => true | _ => false end.
Definition is_text (m : fmode) : bool := match m with ReadText | WriteText | AppendText => true | _ => false end.

Record stream := mkStream { s_name : Z; s_mode : fmode; s_pos : Z; s_eof : bool }.

Definition dfind (d : disk) (n : Z) : option fentry :=
  match find (fun e => fst e =? n) d with Some (_, x) => Some x | None => None end.
Definition dset (d : disk) (n : Z) (x : fentry) : disk :=
  if existsb (fun e => fst e =? n) d then map (fun e => if fst e =? n then (n, x) else e) d else d ++ [(n, x)].
Definition content (d : disk) (n : Z) : list Z := match dfind d n with Some (EFile b) => b | _ => [] end.

(* ---- stdio ------------------------------------------------------------------------------------- *)

(* fopen(path, mode); the path is known not to be a directory *)
Definition fopen (d : disk) (n : Z) (m : fmode) : option (disk * stream) :=
  match m with
  | ReadText | Read => match dfind d n with Some (EFile _) => Some (d, mkStream n m 0 false) | _ => None end
  | WriteText | Write => Some (dset d n (EFile []), mkStream n m 0 false)
  | AppendText | Append =>
      let d' := match dfind d n with Some (EFile _) => d | _ => dset d n (EFile []) end in
      Some (d', mkStream n m (Zlen (content d' n)) false)
  end.

Definition fseek (d : disk) (st : stream) (off : Z) (origin : Z) : stream * Z :=
  let base := if origin =? 0 then 0 else if origin =? 1 then s_pos st else Zlen (content d (s_name st)) in
  if base + off <? 0 then (st, -1) else (mkStream (s_name st) (s_mode st) (base + off) false, 0).

Definition fgetc (d : disk) (st : stream) : stream * option Z :=
  let c := content d (s_name st) in
  if (0 <=? s_pos st) && (s_pos st <? Zlen c)
  then (mkStream (s_name st) (s_mode st) (s_pos st + 1) (s_eof st), Some (nth (Z.to_nat (s_pos st)) c 0))
  else (mkStream (s_name st) (s_mode st) (s_pos st) true, None).

(* fread(buf, 1, n): the bytes read *)
Definition fread (d : disk) (st : stream) (n : Z) : stream * list Z :=
  let c := content d (s_name st) in
  let avail := Z.max 0 (Zlen c - s_pos st) in
  let k := Z.min (Z.max 0 n) avail in
  (mkStream (s_name st) (s_mode st) (s_pos st + k) (s_eof st || (k <? n)),
   firstn (Z.to_nat k) (skipn (Z.to_nat (s_pos st)) c)).

(* fwrite(data, 1, n): at the position (write modes) or at the end (append modes) *)
Definition fwrite (d : disk) (st : stream) (data : list Z) : disk * stream :=
  let c := content d (s_name st) in
  let at_ := if is_append (s_mode st) then Zlen c else s_pos st in
  match data with
  | [] => (d, st)
  | _ =>
      let padded := c ++ repeat 0 (Z.to_nat (at_ - Zlen c)) in
      let c' := firstn (Z.to_nat at_) padded ++ data ++ skipn (Z.to_nat (at_ + Zlen data)) padded in
      (dset d (s_name st) (EFile c'), mkStream (s_name st) (s_mode st) (at_ + Zlen data) (s_eof st))
  end.

(* ---- File.cpp ---------------------------------------------------------------------------------- *)

Inductive ferr := NotFound | NotFile.

(* File::open *)
Definition file_open (d : disk) (n : Z) (m : fmode) : ferr + (disk * option stream) :=
  let ex := match dfind d n with Some _ => true | None => false end in
  let isdir := match dfind d n with Some EDir => true | _ => false end in
  if negb ex && negb (is_write_mode m) then inl NotFound
  else if ex && isdir then inl NotFile
  else match fopen d n m with
       | Some (d', st) => inr (d', Some st)
       | None => inr (d, None)
       end.

(* File::size *)
Definition file_size (d : disk) (st : stream) : stream * Z :=
  let prev := s_pos st in
  let '(st1, _) := fseek d st 0 2 in
  let sz := s_pos st1 in
  let '(st2, _) := fseek d st1 prev 0 in
  (st2, sz).

(* the counting loop of File::read in text modes: while (!isEOF()) ++fileSize *)
Fixpoint count_loop (fuel : nat) (d : disk) (st : stream) (acc : Z) : option (stream * Z) :=
  match fuel with
  | O => None
  | S f =>
      let '(st', _) := fgetc d st in
      if s_eof st' then Some (st', acc) else count_loop f d st' (acc + 1)
  end.

(* File::read(): None = the counting loop did not terminate within the fuel *)
Definition file_read_all (d : disk) (st : stream) : option (stream * list Z) :=
  let '(st0, _) := fseek d st 0 0 in
  let sized :=
    if is_text (s_mode st) then
      match count_loop (S (length (content d (s_name st)))) d st0 0 with
      | Some (st1, n) => let '(st2, _) := fseek d st1 0 0 in Some (st2, n)
      | None => None
      end
    else Some (let '(st1, n) := file_size d st0 in (st1, n)) in
  match sized with
  | Some (st2, n) => Some (fread d st2 n)
  | None => None
  end.

(* ---- runner for the correspondence check ------------------------------------------------------ *)

Definition mode_of (z : Z) : option fmode :=
  match z with 1 => Some ReadText | 2 => Some Read | 3 => Some WriteText | 4 => Some Write
          | 5 => Some AppendText | 6 => Some Append | _ => None end.

Definition ferr_z (e : ferr) : Z := match e with NotFound => -12 | NotFile => -10 end.
Definition bytes_ok (s : list Z) : bool := forallb (fun c => (0 <=? c) && (c <=? 255)) s.
Definition NOFUEL : Z := -777006.

(* a file of [size] generated bytes (byte i = (7 i + b) mod 251), built by binary iteration: sizes of whole blocks
   (4096, 65536, 2^20, ...) and their neighbours *)
Definition gen_bytes (size b : Z) : list Z :=
  match size with
  | Zpos p => snd (Pos.iter (fun st : Z * list Z => let '(j, acc) := st in (j - 1, ((7 * (j - 1) + b) mod 251) :: acc)) (size, []) p)
  | _ => []
  end.

(* open "f<n>/child" where f<n> is a regular file: the path names nothing (ENOTDIR): NotFound for the read modes; a write
   mode passes File's checks, fopen fails and the File is simply not open *)
Definition open_through_file (d : disk) (n : Z) (md : fmode) : option (list Z) :=
  match dfind d n with
  | Some (EFile _) => Some [if is_write_mode md then -1 else ferr_z NotFound]
  | _ => None
  end.

Definition file_step (st : disk * option stream) (l : list Z) : (disk * option stream) * list Z :=
  let '(d, os) := st in
  match l, os with
  | [34; n; size; b], None =>
      if (0 <=? size) && (size <=? 4194304) && (0 <=? b) && (b <? 251)
         && negb (match dfind d n with Some EDir => true | _ => false end)
      then ((dset d n (EFile (gen_bytes size b)), os), [1]) else (st, [PRE])
  | [35; n; m], None =>
      match mode_of m with
      | Some md => match open_through_file d n md with Some out => (st, out) | None => (st, [PRE]) end
      | None => (st, [PRE])
      end
  | [30; n], _ => match dfind d n with None => ((dset d n EDir, os), [1]) | Some _ => (st, [PRE]) end
  | 31 :: n :: bytes, None =>
      if bytes_ok bytes && negb (match dfind d n with Some EDir => true | _ => false end)
      then ((dset d n (EFile bytes), os), [1]) else (st, [PRE])
  | [32; n; m], _ =>
      (* a symbolic link n to the directory m: a directory as far as File::open is concerned *)
      match dfind d n, dfind d m with
      | None, Some EDir => ((dset d n EDir, os), [1])
      | _, _ => (st, [PRE])
      end
  | [1; n; m], _ =>
      (* also on a File that is open: open() closes the old stream after its checks (the model writes through, so
         closing changes nothing on the disk); a failed check leaves the old stream open *)
      match mode_of m with
      | Some md => match file_open d n md with
                   | inl e => (st, [ferr_z e])
                   | inr (d', os') => ((d', os'), [match os' with Some _ => 0 | None => -1 end])
                   end
      | None => (st, [PRE])
      end
  | [2], Some _ => ((d, None), [0])
  | 3 :: bytes, Some s =>
      if is_write_mode (s_mode s) && bytes_ok bytes
      then let '(d', s') := fwrite d s bytes in ((d', Some s'), [Zlen bytes]) else (st, [PRE])
  | [4; n], Some s =>
      if negb (is_write_mode (s_mode s)) && (0 <=? n)
      then let '(s', got) := fread d s n in ((d, Some s'), Zlen got :: got) else (st, [PRE])
  | [5], Some s | [6], Some s =>
      if negb (is_write_mode (s_mode s))
      then match file_read_all d s with
           | Some (s', got) => ((d, Some s'), Zlen got :: got)
           | None => (st, [NOFUEL])
           end
      else (st, [PRE])
  | [7; off; origin], Some s =>
      if (0 <=? origin) && (origin <=? 2) then let '(s', r) := fseek d s off origin in ((d, Some s'), [r]) else (st, [PRE])
  | [8], Some s => (st, [s_pos s])
  | [9], Some s => let '(s', sz) := file_size d s in ((d, Some s'), [sz])
  | _, _ => (st, [PRE])
  end.

(* two File users side by side ([33] switches between them): File objects are independent of one another, the disk is
   shared. One stream per file at a time (the model writes through, stdio buffers): an operation naming the file the
   other user has open is not issued. *)
Definition file_step2 (st : disk * option stream * option stream * bool) (l : list Z)
  : (disk * option stream * option stream * bool) * list Z :=
  let '(d, a, b, act) := st in
  match l with
  | [33] => ((d, a, b, negb act), [0])
  | _ =>
      let cur := if act then b else a in
      let other := if act then a else b in
      let conflict := match l, other with
                      | 1 :: n :: _, Some o => s_name o =? n
                      | 31 :: n :: _, Some o => s_name o =? n
                      | 34 :: n :: _, Some o => s_name o =? n
                      | _, _ => false
                      end in
      if conflict then (st, [PRE]) else
      let '((d', cur'), out) := file_step (d, cur) l in
      ((d', if act then a else cur', if act then cur' else b, act), out)
  end.

Fixpoint file_run_lines (st : disk * option stream * option stream * bool) (ls : list (list Z)) : list (list Z) :=
  match ls with
  | [] => []
  | l :: rest => let '(st', out) := file_step2 st l in out :: file_run_lines st' rest
  end.

Definition file_run (case : list (list Z)) : list (list Z) :=
  match case with
  | [_] :: ls => [] :: file_run_lines ([], None, None, false) ls
  | _ => [[PRE]]
  end.
