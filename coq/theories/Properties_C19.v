(* Properties_C19.v — LocaleInfo::get is total, memory-safe and consistent with its tables.
   Only statements, each closed by [exact <lemma of LocaleProofs>], and Print Assumptions.
   The general theorems are parametric in the two tables under the boolean side condition
   [tables_ok]; the tables of the current source (regenerated into TulzGen.LocaleTables on
   every run) are shown to satisfy it by evaluation. *)
From Coq Require Import List ZArith Bool Lia.
From Tulz Require Import Common LocaleModel LocaleProofs.
From TulzGen Require Import LocaleTables.
Import ListNotations.
Local Open Scope Z_scope.

(* THE property: for any tables satisfying the side condition and every NUL-free byte string,
   the buffer-level model of get() never leaves its 64-byte buffer (result is not LOob) and
   returns exactly the specification: split at the first '_' and the first '.', look the
   language up by code (its code and all table names carrying it, in table order) or else by
   name (its code and that name), the country as the first row matching by code or by name,
   error unset; for every other string — no '_', a '.' before the '_', unknown or empty
   language, unknown or empty country, over-long parts — the English / United Kingdom fallback
   with error set. *)
Theorem C19_get_is_spec : forall langs countries s,
  tables_ok langs countries = true -> ~ In 0 s ->
  get langs countries true s = LOk (spec_get langs countries s).
Proof. exact get_is_spec. Qed.
Print Assumptions C19_get_is_spec.

(* every field of every result is assigned, and every returned string is a table entry (or the
   documented fallback literals) *)
Theorem C19_results_are_table_entries : forall langs countries s,
  let i := spec_get langs countries s in
  i = fallback \/
  (i_error i = false /\
   exists cd cn cc, i_code i = Some cd /\ i_country i = Some cn /\ i_ccode i = Some cc /\
                    In (cn, cc) countries /\ i_langs i <> [] /\ forall n, In n (i_langs i) -> In (n, cd) langs).
Proof. exact results_are_table_entries. Qed.
Print Assumptions C19_results_are_table_entries.

(* the tables of the current source satisfy the side condition (the tie to the source) ... *)
Theorem C19_tables_ok_now : tables_ok lang_table country_table = true.
Proof. vm_compute. reflexivity. Qed.
Print Assumptions C19_tables_ok_now.

(* ... hence the property for the code as it is *)
Theorem C19_now : forall s, ~ In 0 s ->
  get lang_table country_table true s = LOk (spec_get lang_table country_table s).
Proof. intros s H. apply C19_get_is_spec; [exact C19_tables_ok_now | exact H]. Qed.
Print Assumptions C19_now.

(* The pinned upstream code is refuted on the current tables: a part of 64+ bytes overflows the
   buffer, a '.' before the '_' gives a negative memcpy length, and an unknown language with a
   known country returns a languageCode that was never assigned, with no error. *)
Theorem C19_upstream_refuted :
  get lang_table country_table false (repeat 97 65 ++ [95; 85; 83]) = LOob /\
  get lang_table country_table false [97; 46; 98; 95; 99] = LOob /\
  (exists i, get lang_table country_table false [120; 120; 95; 85; 83] = LOk i /\ i_code i = None /\ i_error i = false).
Proof. vm_compute. repeat split; try reflexivity. eexists. repeat split; reflexivity. Qed.
Print Assumptions C19_upstream_refuted.

Example C19_nonvacuous :
  map (fun s => render_l (get lang_table country_table true s))
      [[99; 97; 95; 69; 83; 46; 85; 84; 70; 45; 56]; [120; 120; 95; 85; 83]]
  = [[0; 2; 99; 97; 2; 7; 67; 97; 116; 97; 108; 97; 110; 9; 86; 97; 108; 101; 110; 99; 105; 97; 110;
      5; 83; 112; 97; 105; 110; 2; 69; 83];
     render_l (LOk fallback)].
Proof. vm_compute. reflexivity. Qed.
