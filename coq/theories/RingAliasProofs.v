(* RingAliasProofs.v — pushes whose argument refers to an element of the same buffer ([16; b; i], [17; b; i]).
   The runner rewrites such a line into the ordinary push of the value that element holds at that moment
   (RingModel.ring_desugar). Here: the trace of any history with aliasing pushes IS the trace of a history of
   ordinary operations, so every theorem stated over all histories of ordinary operations (C04_refines_deque,
   C09_step_lifetimes, ...) covers it. *)
From Coq Require Import List ZArith.
From Tulz Require Import Common RingModel RingInv RingProofs.
Import ListNotations.

Fixpoint desugar_all (vr : variant) (ow : bool) (e : env) (ops : list (list Z)) : list (list Z) :=
  match ops with
  | [] => []
  | op :: rest =>
      let op' := ring_desugar e op in
      op' :: desugar_all vr ow (fst (ring_step vr ow e op')) rest
  end.

Lemma ring_trace_d_is_trace : forall vr ow ops e,
  ring_trace_d vr ow e ops = ring_trace vr ow e (desugar_all vr ow e ops).
Proof.
  intros vr ow ops. induction ops as [|op rest IH]; intro e.
  - reflexivity.
  - cbn [ring_trace_d desugar_all ring_trace].
    destruct (ring_step vr ow e (ring_desugar e op)) as [e' o] eqn:E.
    cbn [fst]. rewrite IH. reflexivity.
Qed.

Lemma alias_histories_are_histories : forall vr ow ops,
  exists ops', ring_trace_d vr ow env0 ops = ring_trace vr ow env0 ops'.
Proof.
  intros vr ow ops. exists (desugar_all vr ow env0 ops). apply ring_trace_d_is_trace.
Qed.

(* the same for the specification side *)
Fixpoint ddesugar_all (ow : bool) (e : denv) (ops : list (list Z)) : list (list Z) :=
  match ops with
  | [] => []
  | op :: rest =>
      let op' := deque_desugar e op in
      op' :: ddesugar_all ow (fst (deque_step ow e op')) rest
  end.

Lemma deque_trace_d_is_trace : forall ow ops e,
  deque_trace_d ow e ops = deque_trace ow e (ddesugar_all ow e ops).
Proof.
  intros ow ops. induction ops as [|op rest IH]; intro e.
  - reflexivity.
  - cbn [deque_trace_d ddesugar_all deque_trace].
    destruct (deque_step ow e (deque_desugar e op)) as [e' o] eqn:E.
    cbn [fst]. rewrite IH. reflexivity.
Qed.

(* with the refinement theorem: a history with aliasing pushes behaves like the bounded deque on the history in which
   every aliasing push is the push of the value the buffer holds in that element at that moment *)
Lemma alias_refines_deque : forall ow ops,
  map view_ring (ring_trace_d fixed_variant ow env0 ops) =
  map view_deque (deque_trace ow denv0 (desugar_all fixed_variant ow env0 ops)).
Proof.
  intros ow ops. rewrite ring_trace_d_is_trace. apply ring_refines_deque.
Qed.

Lemma alias_step_lifetimes : forall ow ops,
  Forall2 step_lifetimes_ok (ring_trace_d fixed_variant ow env0 ops)
                            (deque_trace ow denv0 (desugar_all fixed_variant ow env0 ops)).
Proof.
  intros ow ops. rewrite ring_trace_d_is_trace. apply ring_step_lifetimes.
Qed.
