(* RingLemmasA.v — arithmetic and list basics for the RingBuffer proofs. *)
From Coq Require Import List ZArith Bool Lia Permutation.
From Tulz Require Import Common RingModel RingInv.
Import ListNotations.
Local Open Scope Z_scope.

(* ---- modCap ------------------------------------------------------------------------- *)

Lemma modCap_is_mod : forall a b, 0 < b -> modCap a b = a mod b.
Proof.
  intros a b Hb. unfold modCap.
  assert (Hr : - b < Z.rem a b < b).
  { destruct (Z_lt_le_dec a 0).
    - pose proof (Z.rem_bound_pos_neg a b ltac:(lia) ltac:(lia)). lia.
    - pose proof (Z.rem_bound_pos a b ltac:(lia) ltac:(lia)). lia. }
  rewrite Z.rem_mod_nonneg by lia.
  pose proof (Z.quot_rem' a b) as Hq.
  replace (Z.rem a b + b) with (a + (1 - a ÷ b) * b) by lia.
  apply Z.mod_add. lia.
Qed.

Lemma modCap_small a b : 0 <= a < b -> modCap a b = a.
Proof. intros H. rewrite modCap_is_mod by lia. apply Z.mod_small. lia. Qed.

Lemma modCap_hi a b : b <= a < 2 * b -> modCap a b = a - b.
Proof.
  intros H. rewrite modCap_is_mod by lia.
  replace a with ((a - b) + 1 * b) at 1 by lia. rewrite Z.mod_add by lia.
  apply Z.mod_small. lia.
Qed.

Lemma modCap_neg a b : - b <= a < 0 -> modCap a b = a + b.
Proof.
  intros H. rewrite modCap_is_mod by lia.
  replace a with ((a + b) + (-1) * b) at 1 by lia. rewrite Z.mod_add by lia.
  apply Z.mod_small. lia.
Qed.

Lemma modCap_range a b : 0 < b -> 0 <= modCap a b < b.
Proof. intros H. rewrite modCap_is_mod by lia. apply Z.mod_pos_bound. lia. Qed.

Ltac mc_on a b :=
  let E := fresh "E" in
  first [ assert (E : modCap a b = a) by (apply modCap_small; lia)
        | assert (E : modCap a b = a - b) by (apply modCap_hi; lia)
        | assert (E : modCap a b = a + b) by (apply modCap_neg; lia) ];
  rewrite !E in *; clear E.

Ltac mc :=
  repeat match goal with
  | |- context [modCap ?a ?b] => mc_on a b
  | H : context [modCap ?a ?b] |- _ => mc_on a b
  end.

Lemma modCap_cases a c : 0 < c -> - c <= a < 2 * c ->
  (a < 0 /\ modCap a c = a + c) \/ (0 <= a < c /\ modCap a c = a) \/ (c <= a /\ modCap a c = a - c).
Proof.
  intros Hc Ha. destruct (Z_lt_le_dec a 0); [ | destruct (Z_lt_le_dec a c) ].
  - left. split; auto. apply modCap_neg; lia.
  - right; left. split; auto. apply modCap_small; lia.
  - right; right. split; auto. apply modCap_hi; lia.
Qed.

(* abstract every [modCap a b] (innermost first) by a variable with its case facts *)
Ltac mcz :=
  repeat match goal with
  | |- context [modCap ?a ?b] =>
      let H := fresh "Hmc" in let m := fresh "m" in
      pose proof (modCap_cases a b ltac:(lia) ltac:(lia)) as H;
      set (m := modCap a b) in *; clearbody m
  | H0 : context [modCap ?a ?b] |- _ =>
      let H := fresh "Hmc" in let m := fresh "m" in
      pose proof (modCap_cases a b ltac:(lia) ltac:(lia)) as H;
      set (m := modCap a b) in *; clearbody m
  end.

(* split on the range of [a] relative to [b] (for arguments in [-b, 2b)) *)
Ltac mc_split a b :=
  destruct (Z_lt_le_dec a 0); [ | destruct (Z_lt_le_dec a b) ].

(* ---- generic list facts ------------------------------------------------------------- *)

Section Lists.
Context {A : Type}.

Lemma length_list_set (l : list A) n x : length (list_set l n x) = length l.
Proof. revert n; induction l as [|h t IH]; intros [|n]; simpl; auto. Qed.

Lemma nth_list_set_eq (l : list A) n x d : (n < length l)%nat -> nth n (list_set l n x) d = x.
Proof.
  revert n; induction l as [|h t IH]; intros [|n] H; simpl in *; try lia; auto.
  apply IH. lia.
Qed.

Lemma nth_list_set_neq (l : list A) n m x d : n <> m -> nth m (list_set l n x) d = nth m l d.
Proof.
  revert n m; induction l as [|h t IH]; intros [|n] [|m] H; simpl in *; try congruence; auto.
Qed.

Lemma nth_skipn (l : list A) n k d : nth k (skipn n l) d = nth (n + k) l d.
Proof.
  revert l; induction n as [|n IH]; intros l; simpl; auto.
  destruct l; simpl; auto. destruct k; auto.
Qed.

Lemma nth_firstn_lt (l : list A) n k d : (k < n)%nat -> nth k (firstn n l) d = nth k l d.
Proof.
  revert l k; induction n as [|n IH]; intros l k H; [lia|].
  destruct l; simpl; auto. destruct k; auto. apply IH. lia.
Qed.

Lemma nth_map_seq {B} (f : nat -> B) s n k d : (k < n)%nat -> nth k (map f (seq s n)) d = f (s + k)%nat.
Proof.
  revert s k; induction n as [|n IH]; intros s k H; [lia|].
  simpl. destruct k.
  - f_equal. lia.
  - rewrite IH by lia. f_equal. lia.
Qed.

Lemma nth_repeat_any (x : A) n k : nth k (repeat x n) x = x.
Proof. revert k; induction n; intros [|k]; simpl; auto. Qed.

Lemma list_ext (d : A) (l l' : list A) :
  length l = length l' ->
  (forall k, 0 <= k < Zlen l -> nth (Z.to_nat k) l d = nth (Z.to_nat k) l' d) -> l = l'.
Proof.
  intros HL H. apply nth_ext with (d := d) (d' := d); auto.
  intros n Hn. specialize (H (Z.of_nat n)). rewrite Nat2Z.id in H. apply H.
  unfold Zlen. lia.
Qed.

Lemma firstn_all_ge (l : list A) n : (length l <= n)%nat -> firstn n l = l.
Proof. intros. apply firstn_all2. auto. Qed.

Lemma skipn_all_ge (l : list A) n : (length l <= n)%nat -> skipn n l = [].
Proof. intros. apply skipn_all2. auto. Qed.

Lemma removelast_app1 (l : list A) x : removelast (l ++ [x]) = l.
Proof. apply removelast_last. Qed.

Lemma firstn_min_len (l : list A) n m : m = length l -> firstn (Nat.min m n) l = firstn n l.
Proof.
  intros ->. destruct (Nat.le_ge_cases (length l) n).
  - rewrite Nat.min_l by lia. rewrite !firstn_all2 by lia. reflexivity.
  - rewrite Nat.min_r by lia. reflexivity.
Qed.

End Lists.

(* ---- rd / wr -------------------------------------------------------------------------- *)

Section RW.
Context {V : Type}.
Implicit Types (d : list (slot V)) (r : ring V).

Lemma inb_true d i : 0 <= i < Zlen d -> inb d i = true.
Proof. intros. unfold inb. apply andb_true_intro. split; [apply Z.leb_le|apply Z.ltb_lt]; lia. Qed.

Lemma inb_false d i : ~ (0 <= i < Zlen d) -> inb d i = false.
Proof.
  intros. unfold inb. destruct (0 <=? i) eqn:E1; destruct (i <? Zlen d) eqn:E2; auto.
  apply Z.leb_le in E1. apply Z.ltb_lt in E2. lia.
Qed.

Lemma Zlen_wr d i s : Zlen (wr d i s) = Zlen d.
Proof. unfold wr. destruct (inb d i); auto. unfold Zlen. rewrite length_list_set. auto. Qed.

Lemma rd_in d i : 0 <= i < Zlen d -> rd d i = nth (Z.to_nat i) d Raw.
Proof. intros. unfold rd. rewrite inb_true; auto. Qed.

Lemma rd_out d i : ~ (0 <= i < Zlen d) -> rd d i = Raw.
Proof. intros. unfold rd. rewrite inb_false; auto. Qed.

Lemma ub_in d i : 0 <= i < Zlen d -> ub d i = [].
Proof. intros. unfold ub. rewrite inb_true; auto. Qed.

Lemma rd_wr_same d i s : 0 <= i < Zlen d -> rd (wr d i s) i = s.
Proof.
  intros H. unfold rd, wr. rewrite (inb_true d i H).
  rewrite inb_true by (unfold Zlen in *; rewrite length_list_set; lia).
  apply nth_list_set_eq. unfold Zlen in H. lia.
Qed.

Lemma rd_wr_other d i j s : i <> j -> rd (wr d i s) j = rd d j.
Proof.
  intros H. unfold wr. destruct (inb d i) eqn:E; auto.
  unfold rd. unfold inb at 1. unfold Zlen. rewrite length_list_set. fold (Zlen d). fold (inb d j).
  destruct (inb d j) eqn:E2; auto.
  apply nth_list_set_neq.
  unfold inb in *. apply andb_prop in E. apply andb_prop in E2.
  destruct E as [E _]. destruct E2 as [E2 _]. apply Z.leb_le in E. apply Z.leb_le in E2. lia.
Qed.

Lemma rd_app1 d d' i : 0 <= i < Zlen d -> rd (d ++ d') i = rd d i.
Proof.
  intros H. rewrite !rd_in; auto.
  - apply app_nth1. unfold Zlen in H. lia.
  - unfold Zlen in *. rewrite app_length. lia.
Qed.

Lemma rd_app2 d d' i : Zlen d <= i -> rd (d ++ d') i = rd d' (i - Zlen d).
Proof.
  intros H. unfold Zlen in *.
  destruct (Z_lt_le_dec i (Z.of_nat (length d) + Z.of_nat (length d'))).
  - rewrite !rd_in by (unfold Zlen; try rewrite app_length; lia).
    rewrite app_nth2 by lia. f_equal. lia.
  - rewrite !rd_out by (unfold Zlen; try rewrite app_length; lia). auto.
Qed.

Lemma rd_repeat_Raw n i : rd (repeat (@Raw V) n) i = Raw.
Proof.
  unfold rd. destruct (inb _ i); auto. apply nth_repeat_any.
Qed.

(* ---- slot_vals ------------------------------------------------------------------------ *)

Lemma slot_vals_app (a b : list (slot V)) : slot_vals (a ++ b) = slot_vals a ++ slot_vals b.
Proof. unfold slot_vals. apply flat_map_app. Qed.

Lemma slot_vals_map_Live (l : list V) : slot_vals (map Live l) = l.
Proof. induction l; simpl; congruence. Qed.

Lemma all_live_map (l : list (slot V)) :
  (forall k, 0 <= k < Zlen l -> is_live (nth (Z.to_nat k) l Raw) = true) ->
  l = map Live (slot_vals l).
Proof.
  induction l as [|s t IH]; intros H; simpl; auto.
  assert (Hs : is_live s = true).
  { specialize (H 0). simpl in H. apply H. unfold Zlen. simpl. lia. }
  destruct s; simpl in Hs; try discriminate. simpl. f_equal. apply IH.
  intros k Hk. specialize (H (k + 1)).
  replace (Z.to_nat (k + 1)) with (S (Z.to_nat k)) in H by lia. simpl in H. apply H.
  unfold Zlen in *. simpl. lia.
Qed.

Lemma existsb_live_false (l : list (slot V)) :
  (forall k, 0 <= k < Zlen l -> is_live (nth (Z.to_nat k) l Raw) = false) ->
  existsb is_live l = false.
Proof.
  induction l as [|s t IH]; intros H; simpl; auto.
  apply orb_false_intro.
  - specialize (H 0). simpl in H. apply H. unfold Zlen. simpl. lia.
  - apply IH. intros k Hk. specialize (H (k + 1)).
    replace (Z.to_nat (k + 1)) with (S (Z.to_nat k)) in H by lia. simpl in H. apply H.
    unfold Zlen in *. simpl. lia.
Qed.

(* ---- contents ------------------------------------------------------------------------- *)

Lemma contents_length r : length (contents r) = Z.to_nat (size r).
Proof. unfold contents. rewrite map_length, seq_length. auto. Qed.

Lemma contents_nth r k : 0 <= k < size r ->
  nth (Z.to_nat k) (contents r) Raw = rd (data r) (dataIndex r k).
Proof.
  intros H. unfold contents. rewrite nth_map_seq by lia. simpl. rewrite Z2Nat.id by lia. auto.
Qed.

Lemma contents_ext r (l : list (slot V)) :
  Zlen l = size r ->
  (forall k, 0 <= k < size r -> nth (Z.to_nat k) l Raw = rd (data r) (dataIndex r k)) ->
  contents r = l.
Proof.
  intros HL H. apply list_ext with (d := Raw).
  - rewrite contents_length. unfold Zlen in HL. lia.
  - intros k Hk. unfold Zlen in Hk. rewrite contents_length in Hk.
    rewrite contents_nth by lia. symmetry. apply H. lia.
Qed.

Lemma Zlen_contents r : 0 <= size r -> Zlen (contents r) = size r.
Proof. intros. unfold Zlen. rewrite contents_length. lia. Qed.

End RW.
