(* Properties_C05.v — Subject delivers to exactly the live, unmuted observers, in order.
   Only statements, each closed by [exact <lemma of SubjectProofs>], and Print Assumptions. *)
From Coq Require Import List ZArith Bool Lia.
From Tulz Require Import Common SubjectModel SubjectSpec SubjectProofs.
Import ListNotations.
Local Open Scope Z_scope.

(* the pointer-level model of Subject / Subscription / Observer has exactly the observable
   behaviour of the specification on plain subscription records, for every history of
   subscribe, unsubscribe (via handle or subject), mute, unmute, invalidate, handle moves,
   notify and Subject destruction (with or without re-entrant callbacks): same invocations,
   same isValid()/isMuted() of every handle after every operation, and
   Subject::unsubscribe(handle) throws exactly for stale, cleared and foreign handles, in
   which case nothing changes (a_step, case OSubjUnsub) *)
Theorem C05_refines_spec : forall scripts fuel nsubj ops,
  c_trace true scripts fuel (world0 nsubj) ops = a_trace scripts fuel (aworld0 nsubj) ops.
Proof. exact subject_refines_spec. Qed.
Print Assumptions C05_refines_spec.

(* THE delivery property, on the specification: in every reachable world, if the observers
   subscribed to Subject k do not change the world from their callbacks, notify(arg) invokes
   exactly the subscriptions that are valid and not muted, each once, in subscription order,
   each with arg; afterwards exactly the invalidated subscriptions have been removed, and
   nothing else has changed *)
Theorem C05_notify_delivers : forall scripts fuel fuel' nsubj ops w k s arg,
  a_exec scripts fuel (aworld0 nsubj) ops = Some w ->
  nth_error (asubjects w) k = Some s ->
  (forall r, In r (subs s) -> nth (a_script r) scripts [] = []) ->
  a_notify scripts (S fuel') w k arg =
    Ok (mkAW (list_set (asubjects w) k (mkAS (filter a_valid (subs s)) (acounter s))) (ahandles w) (anext w)
             (rev (map (fun r => (a_obs r, arg)) (filter (fun r => a_valid r && negb (a_muted r)) (subs s)))
              ++ acalls w)).
Proof. exact notify_delivers. Qed.
Print Assumptions C05_notify_delivers.

(* an observer that has been unsubscribed or invalidated is never invoked again, whatever
   happens afterwards (callbacks included) *)
Theorem C05_never_again : forall scripts fuel nsubj ops1 ops2 w1 w2 o,
  a_exec scripts fuel (aworld0 nsubj) ops1 = Some w1 ->
  a_exec scripts fuel w1 ops2 = Some w2 ->
  (o < anext w1)%nat ->
  (forall k s r, nth_error (asubjects w1) k = Some s -> In r (subs s) -> a_obs r = o -> a_valid r = false) ->
  exists new, acalls w2 = new ++ acalls w1 /\ forall arg, ~ In (o, arg) new.
Proof. exact never_again. Qed.
Print Assumptions C05_never_again.

(* every observer object is destroyed exactly once: never twice, and between operations the
   objects still alive are exactly those owned by a subscription list (so unsubscription,
   lazy removal and Subject destruction each destroy what they remove) *)
Theorem C05_destroyed_once : forall scripts fuel nsubj ops w,
  c_exec true scripts fuel (world0 nsubj) ops = Some w ->
  NoDup (frees_of (log w)) /\
  forall o ob, nth_error (heap w) o = Some ob ->
    (o_alive ob = true <-> subscribed w o) /\ (o_alive ob = false <-> In o (frees_of (log w))).
Proof. exact destroyed_once. Qed.
Print Assumptions C05_destroyed_once.

Example C05_nonvacuous :
  map (fun x => match x with Done v => (v_ret v, v_calls v, v_handles v) | _ => ([], [], []) end)
      (c_trace true [] 6 (world0 2)
         [OAct (ASub 0 0); OAct (ASub 0 0); OAct (ASub 1 0); OAct (AMute 1); OAct (ANotify 0 5);
          OAct (AInval 0); OAct (AUnmute 1); OAct (ANotify 0 6); OSubjUnsub 0 2; OSubjUnsub 0 0; OMove 0 1; OAct (ANotify 0 7)])
  = [([], [], [Some false]); ([], [], [Some false; Some false]); ([], [], [Some false; Some false; Some false]);
     ([], [], [Some false; Some true; Some false]); ([], [(0%nat, 5)], [Some false; Some true; Some false]);
     ([], [], [Some false; Some true; Some false]); ([], [], [Some false; Some false; Some false]);
     ([], [(1%nat, 6)], [None; Some false; Some false]); ([1], [], [None; Some false; Some false]);
     ([1], [], [None; Some false; Some false]); ([], [], [Some false; None; Some false]);
     ([], [(1%nat, 7)], [Some false; None; Some false])].
Proof. vm_compute. reflexivity. Qed.
