(* RingModel.v — executable model of include/tulz/container/RingBuffer.h.
   Definitions only (no proofs), so that the model still runs when a proof breaks.

   Every function mirrors the C++ member of the same name statement by statement.
   - index arithmetic is done on Z with C++'s truncating remainder (Z.rem), as in modCap;
   - the array is a list of slots; a slot is raw storage, a live element, or a moved-from
     shell (what pop_* leaves behind);
   - every element-level action the C++ performs (copy construction, move assignment over an
     existing object, destructor call, move-out, array release) is logged as an event, and
     every access outside the allocation or read of a non-element is logged as EUb;
   - [None] means a documented precondition was violated (the C++ asserts / is undefined). *)
From Coq Require Import List ZArith Bool Lia.
From Tulz Require Import Common.
Import ListNotations.
Local Open Scope Z_scope.

Section Ring.
Context {V : Type}.
Variable veqb : V -> V -> bool.

Inductive slot := Raw | Live (v : V) | Shell.

Inductive event :=
| ECtor (v : V)                  (* a new element is constructed holding v *)
| EAssign (old : slot) (v : V)   (* v is move-assigned over a slot whose previous state was old *)
| EDtor (s : slot)               (* a destructor ran on a slot in state s *)
| EMoveOut (s : slot)            (* the slot's value was moved out to the caller (pop) *)
| EFree (rest : list slot)       (* the array was released; rest = slots neither relocated nor destroyed *)
| EDrop (rest : list slot)       (* the array pointer was overwritten without releasing it *)
| EUb.                           (* access outside the allocation, or read of a non-element *)

Record ring := mkRing { pos : Z; size : Z; cap : Z; data : list slot }.

(* Variant switches for the two places where the pinned upstream code differed from the
   repaired code (see DESIGN.md D2, D3). The tree's current code is [fixed_variant]. *)
Record variant := mkVariant { dtor_logical : bool; assign_releases : bool }.
Definition fixed_variant := mkVariant true true.
Definition upstream_variant := mkVariant false false.

Definition modCap (a b : Z) : Z := Z.rem (Z.rem a b + b) b.

Definition inb (d : list slot) (i : Z) : bool := (0 <=? i) && (i <? Zlen d).
Definition rd (d : list slot) (i : Z) : slot := if inb d i then nth (Z.to_nat i) d Raw else Raw.
Definition wr (d : list slot) (i : Z) (s : slot) : list slot :=
  if inb d i then list_set d (Z.to_nat i) s else d.
Definition ub (d : list slot) (i : Z) : list event := if inb d i then [] else [EUb].

Definition dataIndex (r : ring) (i : Z) : Z := modCap (pos r + i) (cap r).
Definition full (r : ring) : bool := size r =? cap r.

(* placement-new on top of a live element abandons that element *)
Definition placed (s : slot) : list event :=
  match s with Live _ => [EDrop [s]] | _ => [] end.

Definition moved (s : slot) : slot := match s with Live _ => Shell | _ => s end.

(* the logical contents, as slots, front to back *)
Definition contents (r : ring) : list slot :=
  map (fun i => rd (data r) (dataIndex r (Z.of_nat i))) (seq 0 (Z.to_nat (size r))).

Definition slot_vals (l : list slot) : list V :=
  flat_map (fun s => match s with Live v => [v] | _ => [] end) l.

Definition items (r : ring) : list V := slot_vals (contents r).

Definition empty_ring : ring := mkRing 0 0 0 [].
Definition new_ring (c : Z) : ring := mkRing 0 0 c (repeat Raw (Z.to_nat c)).

(* ---- insertion ---------------------------------------------------------------------- *)

Definition emplace_back (ow : bool) (r : ring) (v : V) : option (ring * list event) :=
  if negb (ow || (size r <? cap r)) then None else
  if full r then
    let i := pos r in
    Some (mkRing (modCap (pos r + 1) (cap r)) (size r) (cap r) (wr (data r) i (Live v)),
          ub (data r) i ++ [ECtor v; EAssign (rd (data r) i) v; EDtor Shell])
  else
    let i := modCap (pos r + size r) (cap r) in
    Some (mkRing (pos r) (size r + 1) (cap r) (wr (data r) i (Live v)),
          ub (data r) i ++ [ECtor v] ++ placed (rd (data r) i)).

Definition emplace_front (ow : bool) (r : ring) (v : V) : option (ring * list event) :=
  if negb (ow || (size r <? cap r)) then None else
  let p := modCap (pos r - 1) (cap r) in
  if full r then
    Some (mkRing p (size r) (cap r) (wr (data r) p (Live v)),
          ub (data r) p ++ [ECtor v; EAssign (rd (data r) p) v; EDtor Shell])
  else
    Some (mkRing p (size r + 1) (cap r) (wr (data r) p (Live v)),
          ub (data r) p ++ [ECtor v] ++ placed (rd (data r) p)).

(* the reference returned by push_* / emplace_*: back() resp. front() of the new state *)
Definition at_ (r : ring) (i : Z) : slot := rd (data r) (dataIndex r i).

(* ---- removal ------------------------------------------------------------------------ *)

Definition pop_back (r : ring) : option (ring * slot * list event) :=
  if size r =? 0 then None else
  let sz := size r - 1 in
  let i := modCap (pos r + sz) (cap r) in
  Some (mkRing (pos r) sz (cap r) (wr (data r) i (moved (rd (data r) i))),
        rd (data r) i, ub (data r) i ++ [EMoveOut (rd (data r) i)]).

Definition pop_front (r : ring) : option (ring * slot * list event) :=
  if size r =? 0 then None else
  let i := pos r in
  Some (mkRing (modCap (pos r + 1) (cap r)) (size r - 1) (cap r) (wr (data r) i (moved (rd (data r) i))),
        rd (data r) i, ub (data r) i ++ [EMoveOut (rd (data r) i)]).

(* ---- access ------------------------------------------------------------------------- *)

Definition index (r : ring) (i : Z) : option (slot * list event) :=
  if (0 <=? i) && (i <? size r) then Some (at_ r i, ub (data r) (dataIndex r i)) else None.
Definition front (r : ring) : option (slot * list event) :=
  if size r =? 0 then None else index r 0.
Definition back (r : ring) : option (slot * list event) :=
  if size r =? 0 then None else index r (size r - 1).

(* ---- resize ------------------------------------------------------------------------- *)

Definition slice (d : list slot) (s n : Z) : list slot := firstn (Z.to_nat n) (skipn (Z.to_nat s) d).
Definition clear (d : list slot) (s n : Z) : list slot :=
  firstn (Z.to_nat s) d ++ repeat Raw (Z.to_nat n) ++ skipn (Z.to_nat (s + n)) d.
Definition range_ub (d : list slot) (s n : Z) : list event :=
  if (n <=? 0) || ((0 <=? s) && (s + n <=? Zlen d)) then [] else [EUb].

(* silentCopy: the two memcpy's; returns (copied slots, old array with the relocated slots
   emptied, events) *)
Definition silentCopy (r : ring) (n : Z) : list slot * list slot * list event :=
  let n1 := Z.min n (cap r - pos r) in
  let n2 := n - n1 in
  let s2 := modCap (pos r + n1) (cap r) in
  let p1 := slice (data r) (pos r) n1 in
  let p2 := slice (data r) s2 n2 in
  (p1 ++ p2,
   clear (clear (data r) (pos r) n1) s2 n2,
   range_ub (data r) (pos r) n1 ++ range_ub (data r) s2 n2).

(* destructor loop over [cnt] indices produced by [idx] *)
Fixpoint dtor_loop (d : list slot) (idx : Z -> Z) (start : Z) (cnt : nat) : list slot * list event :=
  match cnt with
  | O => (d, [])
  | S c =>
    let i := idx start in
    let '(d', ev) := dtor_loop (wr d i Raw) idx (start + 1) c in
    (d', ub d i ++ [EDtor (rd d i)] ++ ev)
  end.

Definition resize (vr : variant) (r : ring) (n : Z) : option (ring * list event) :=
  if n <=? 0 then None else
  if n =? cap r then Some (r, []) else
  let last := modCap (pos r + size r - 1) (cap r) in
  if (pos r <=? last) && (last <? n) then
    Some (mkRing (pos r) (size r) n
                 (firstn (Z.to_nat n) (data r) ++ repeat Raw (Z.to_nat (n - cap r))),
          [EFree (skipn (Z.to_nat n) (data r))])
  else if n <? cap r then
    let cc := Z.min (size r) n in
    let dc := size r - cc in
    let '(copied, d1, ev1) := silentCopy r cc in
    let idx := if dtor_logical vr then (fun i => dataIndex r i) else (fun i => i) in
    let '(d2, ev2) := dtor_loop d1 idx cc (Z.to_nat dc) in
    Some (mkRing 0 cc n (copied ++ repeat Raw (Z.to_nat (n - cc))),
          ev1 ++ ev2 ++ [EFree d2])
  else
    let '(copied, d1, ev1) := silentCopy r (size r) in
    Some (mkRing 0 (size r) n (copied ++ repeat Raw (Z.to_nat (n - size r))),
          ev1 ++ [EFree d1]).

(* ---- destruction, copy, move ---------------------------------------------------------- *)

Definition destroy (r : ring) : list event :=
  let '(d', ev) := dtor_loop (data r) (fun i => dataIndex r i) 0 (Z.to_nat (size r)) in
  ev ++ [EFree d'].

Definition copy_slot (s : slot) : slot * list event :=
  match s with Live v => (Live v, [ECtor v]) | _ => (Raw, [EUb]) end.

Definition copy_assign (vr : variant) (dst src : ring) : ring * list event :=
  let ev_old := if assign_releases vr then destroy dst else [EDrop (data dst)] in
  let cs := map copy_slot (contents src) in
  let fresh := map fst cs ++ repeat Raw (Z.to_nat (cap src - size src)) in
  (mkRing 0 (size src) (cap src) fresh,
   ev_old ++ flat_map snd cs ++ (if Zlen (map fst cs) <=? cap src then [] else [EUb])).

Definition copy_construct (vr : variant) (src : ring) : ring * list event :=
  copy_assign vr empty_ring src.

Definition init_list (vals : list V) (c : Z) : ring * list event :=
  let n := Zlen vals in
  let c' := if c =? -1 then n else c in
  (mkRing 0 n c' (map Live vals ++ repeat Raw (Z.to_nat (c' - n))),
   map ECtor vals ++ (if n <=? c' then [] else [EUb])).

Fixpoint slots_eqb (a b : list slot) : bool :=
  match a, b with
  | [], [] => true
  | Live x :: a', Live y :: b' => veqb x y && slots_eqb a' b'
  | _, _ => false
  end.

Definition ring_eqb (a b : ring) : bool := slots_eqb (contents a) (contents b).

End Ring.

Arguments slot : clear implicits.
Arguments event : clear implicits.
Arguments ring : clear implicits.

(* ======================================================================================= *)
(* The bounded deque the property talks about (the whole specification).                   *)

Section Deque.
Context {V : Type}.
Record deque := mkDeque { ditems : list V; dcap : Z }.

Definition d_push_back (ow : bool) (d : deque) (v : V) : option deque :=
  if Zlen (ditems d) <? dcap d then Some (mkDeque (ditems d ++ [v]) (dcap d))
  else if ow then Some (mkDeque (tl (ditems d) ++ [v]) (dcap d)) else None.
Definition d_push_front (ow : bool) (d : deque) (v : V) : option deque :=
  if Zlen (ditems d) <? dcap d then Some (mkDeque (v :: ditems d) (dcap d))
  else if ow then Some (mkDeque (v :: removelast (ditems d)) (dcap d)) else None.
Definition d_pop_back (d : deque) : option (deque * V) :=
  match rev (ditems d) with
  | [] => None
  | x :: _ => Some (mkDeque (removelast (ditems d)) (dcap d), x)
  end.
Definition d_pop_front (d : deque) : option (deque * V) :=
  match ditems d with
  | [] => None
  | x :: t => Some (mkDeque t (dcap d), x)
  end.
Definition d_resize (d : deque) (n : Z) : option deque :=
  if n <=? 0 then None else Some (mkDeque (firstn (Z.to_nat n) (ditems d)) n).
(* what a shrinking resize removes *)
Definition d_resize_removed (d : deque) (n : Z) : list V := skipn (Z.to_nat n) (ditems d).
End Deque.
Arguments deque : clear implicits.

(* ======================================================================================= *)
(* Runner used by the correspondence check: an environment of a few buffer variables, one   *)
(* integer line per operation in, one integer line of observations out.                     *)

Definition RAWZ : Z := -111111.
Definition SHELLZ : Z := -222222.

Definition slot_z (s : slot Z) : Z :=
  match s with Raw => RAWZ | Live v => v | Shell => SHELLZ end.

Definition event_z (e : event Z) : list Z :=
  match e with
  | ECtor v => [1; v]
  | EAssign old v => [2; slot_z old; v]
  | EDtor s => [3; slot_z s]
  | EMoveOut s => [4; slot_z s]
  | EFree _ => []
  | EDrop _ => []
  | EUb => [9]
  end.

Definition env := list (option (ring Z)).

Definition env_get (e : env) (b : Z) : option (ring Z) :=
  if (0 <=? b) then nth (Z.to_nat b) e None else None.
Definition env_set (e : env) (b : Z) (r : option (ring Z)) : env :=
  if (0 <=? b) && (b <? Zlen e) then list_set e (Z.to_nat b) r else e.

(* element-level operations need a buffer with capacity >= 1 (a moved-from buffer has 0) *)
Definition env_get_u (e : env) (b : Z) : option (ring Z) :=
  match env_get e b with
  | Some r => if 1 <=? cap r then Some r else None
  | None => None
  end.

Definition dump_ring (o : option (ring Z)) : list Z :=
  match o with
  | None => [-1]
  | Some r => size r :: cap r :: map slot_z (contents r)
  end.

Definition dump_env (e : env) : list Z := flat_map dump_ring e.

(* result of one operation line: [None] = a documented precondition is violated (or the line
   is not an operation); otherwise the returned values and the element events *)
Definition outcome := option (list Z * list (event Z)).

Definition ring_step (vr : variant) (ow : bool) (e : env) (op : list Z) : env * outcome :=
  match op with
  | [0; b; c] =>
      match env_get e b with
      | None => if (1 <=? c) && (0 <=? b) && (b <? Zlen e)
                then (env_set e b (Some (new_ring c)), Some ([], [])) else (e, None)
      | Some _ => (e, None)
      end
  | [1; b; v] =>
      match env_get_u e b with
      | Some r => match emplace_back ow r v with
                  | Some (r', evs) => (env_set e b (Some r'), Some ([slot_z (at_ r' (size r' - 1))], evs))
                  | None => (e, None) end
      | None => (e, None)
      end
  | [2; b; v] =>
      match env_get_u e b with
      | Some r => match emplace_front ow r v with
                  | Some (r', evs) => (env_set e b (Some r'), Some ([slot_z (at_ r' 0)], evs))
                  | None => (e, None) end
      | None => (e, None)
      end
  | [3; b] =>
      match env_get_u e b with
      | Some r => match pop_back r with
                  | Some (r', s, evs) => (env_set e b (Some r'), Some ([slot_z s], evs))
                  | None => (e, None) end
      | None => (e, None)
      end
  | [4; b] =>
      match env_get_u e b with
      | Some r => match pop_front r with
                  | Some (r', s, evs) => (env_set e b (Some r'), Some ([slot_z s], evs))
                  | None => (e, None) end
      | None => (e, None)
      end
  | [5; b; n] =>
      match env_get_u e b with
      | Some r => match resize vr r n with
                  | Some (r', evs) => (env_set e b (Some r'), Some ([], evs))
                  | None => (e, None) end
      | None => (e, None)
      end
  | [6; b] =>
      match env_get_u e b with
      | Some r => match front r with
                  | Some (s, evs) => (e, Some ([slot_z s], evs))
                  | None => (e, None) end
      | None => (e, None)
      end
  | [7; b] =>
      match env_get_u e b with
      | Some r => match back r with
                  | Some (s, evs) => (e, Some ([slot_z s], evs))
                  | None => (e, None) end
      | None => (e, None)
      end
  | [8; b; i] =>
      match env_get_u e b with
      | Some r => match index r i with
                  | Some (s, evs) => (e, Some ([slot_z s], evs))
                  | None => (e, None) end
      | None => (e, None)
      end
  | [9; b; c] =>
      match env_get e b, env_get e c with
      | None, Some src => if (0 <=? b) && (b <? Zlen e) then
                            let '(r', evs) := copy_construct vr src in
                            (env_set e b (Some r'), Some ([], evs))
                          else (e, None)
      | _, _ => (e, None)
      end
  | [10; b; c] =>
      match env_get e b, env_get e c with
      | Some dst, Some src =>
          if b =? c then (e, Some ([], []))
          else let '(r', evs) := copy_assign vr dst src in
               (env_set e b (Some r'), Some ([], evs))
      | _, _ => (e, None)
      end
  | [11; b; c] =>
      match env_get e b, env_get e c with
      | None, Some src => if (0 <=? b) && (b <? Zlen e) then
                            (env_set (env_set e b (Some src)) c (Some empty_ring), Some ([], []))
                          else (e, None)
      | _, _ => (e, None)
      end
  | [12; b; c] =>
      match env_get e b, env_get e c with
      | Some dst, Some src => (env_set (env_set e b (Some src)) c (Some dst), Some ([], []))
      | _, _ => (e, None)
      end
  | [13; b] =>
      match env_get e b with
      | Some r => (env_set e b None, Some ([], destroy r))
      | None => (e, None)
      end
  | [14; b; c] =>
      match env_get e b, env_get e c with
      | Some x, Some y => (e, Some ([b2z (ring_eqb Z.eqb x y)], []))
      | _, _ => (e, None)
      end
  | 15 :: b :: c :: vals =>
      match env_get e b with
      | None => if ((c =? -1) && (1 <=? Zlen vals) || (Zlen vals <=? c) && (1 <=? c))
                   && (0 <=? b) && (b <? Zlen e) then
                  let '(r', evs) := init_list vals c in
                  (env_set e b (Some r'), Some ([], evs))
                else (e, None)
      | Some _ => (e, None)
      end
  | _ => (e, None)
  end.

(* the trace of a history: per operation the outcome and the environment dump after it *)
Fixpoint ring_trace (vr : variant) (ow : bool) (e : env) (ops : list (list Z))
  : list (outcome * list Z) :=
  match ops with
  | [] => []
  | op :: rest => let '(e', o) := ring_step vr ow e op in (o, dump_env e') :: ring_trace vr ow e' rest
  end.

Definition env0 : env := [None; None; None].

(* ---- the same operation language interpreted over bounded deques (the specification) --- *)

Definition denv := list (option (deque Z)).
Definition denv_get (e : denv) (b : Z) : option (deque Z) :=
  if (0 <=? b) then nth (Z.to_nat b) e None else None.
Definition denv_set (e : denv) (b : Z) (r : option (deque Z)) : denv :=
  if (0 <=? b) && (b <? Zlen e) then list_set e (Z.to_nat b) r else e.
Definition denv_get_u (e : denv) (b : Z) : option (deque Z) :=
  match denv_get e b with
  | Some d => if 1 <=? dcap d then Some d else None
  | None => None
  end.
Definition dump_deque (o : option (deque Z)) : list Z :=
  match o with
  | None => [-1]
  | Some d => Zlen (ditems d) :: dcap d :: ditems d
  end.
Definition dump_denv (e : denv) : list Z := flat_map dump_deque e.

(* result of a deque operation: returned values and the element values the operation
   removes from the container for good (overwritten, cut off, replaced, destroyed) *)
Definition doutcome := option (list Z * list Z).

Definition deque_step (ow : bool) (e : denv) (op : list Z) : denv * doutcome :=
  match op with
  | [0; b; c] =>
      match denv_get e b with
      | None => if (1 <=? c) && (0 <=? b) && (b <? Zlen e)
                then (denv_set e b (Some (mkDeque [] c)), Some ([], [])) else (e, None)
      | Some _ => (e, None)
      end
  | [1; b; v] =>
      match denv_get_u e b with
      | Some d => match d_push_back ow d v with
                  | Some d' => (denv_set e b (Some d'),
                                Some ([v], if Zlen (ditems d) <? dcap d then [] else firstn 1 (ditems d)))
                  | None => (e, None) end
      | None => (e, None)
      end
  | [2; b; v] =>
      match denv_get_u e b with
      | Some d => match d_push_front ow d v with
                  | Some d' => (denv_set e b (Some d'),
                                Some ([v], if Zlen (ditems d) <? dcap d then [] else firstn 1 (rev (ditems d))))
                  | None => (e, None) end
      | None => (e, None)
      end
  | [3; b] =>
      match denv_get_u e b with
      | Some d => match d_pop_back d with
                  | Some (d', x) => (denv_set e b (Some d'), Some ([x], []))
                  | None => (e, None) end
      | None => (e, None)
      end
  | [4; b] =>
      match denv_get_u e b with
      | Some d => match d_pop_front d with
                  | Some (d', x) => (denv_set e b (Some d'), Some ([x], []))
                  | None => (e, None) end
      | None => (e, None)
      end
  | [5; b; n] =>
      match denv_get_u e b with
      | Some d => match d_resize d n with
                  | Some d' => (denv_set e b (Some d'), Some ([], d_resize_removed d n))
                  | None => (e, None) end
      | None => (e, None)
      end
  | [6; b] =>
      match denv_get_u e b with
      | Some d => match ditems d with x :: _ => (e, Some ([x], [])) | [] => (e, None) end
      | None => (e, None)
      end
  | [7; b] =>
      match denv_get_u e b with
      | Some d => match rev (ditems d) with x :: _ => (e, Some ([x], [])) | [] => (e, None) end
      | None => (e, None)
      end
  | [8; b; i] =>
      match denv_get_u e b with
      | Some d => if (0 <=? i) && (i <? Zlen (ditems d))
                  then (e, Some ([nth (Z.to_nat i) (ditems d) 0], [])) else (e, None)
      | None => (e, None)
      end
  | [9; b; c] =>
      match denv_get e b, denv_get e c with
      | None, Some src => if (0 <=? b) && (b <? Zlen e) then (denv_set e b (Some src), Some ([], []))
                          else (e, None)
      | _, _ => (e, None)
      end
  | [10; b; c] =>
      match denv_get e b, denv_get e c with
      | Some dst, Some src => if b =? c then (e, Some ([], []))
                              else (denv_set e b (Some src), Some ([], ditems dst))
      | _, _ => (e, None)
      end
  | [11; b; c] =>
      match denv_get e b, denv_get e c with
      | None, Some src => if (0 <=? b) && (b <? Zlen e) then
                            (denv_set (denv_set e b (Some src)) c (Some (mkDeque [] 0)), Some ([], []))
                          else (e, None)
      | _, _ => (e, None)
      end
  | [12; b; c] =>
      match denv_get e b, denv_get e c with
      | Some dst, Some src => (denv_set (denv_set e b (Some src)) c (Some dst), Some ([], []))
      | _, _ => (e, None)
      end
  | [13; b] =>
      match denv_get e b with
      | Some d => (denv_set e b None, Some ([], ditems d))
      | None => (e, None)
      end
  | [14; b; c] =>
      match denv_get e b, denv_get e c with
      | Some x, Some y =>
          (e, Some ([b2z (if list_eq_dec Z.eq_dec (ditems x) (ditems y) then true else false)], []))
      | _, _ => (e, None)
      end
  | 15 :: b :: c :: vals =>
      match denv_get e b with
      | None => if ((c =? -1) && (1 <=? Zlen vals) || (Zlen vals <=? c) && (1 <=? c))
                   && (0 <=? b) && (b <? Zlen e) then
                  (denv_set e b (Some (mkDeque vals (if c =? -1 then Zlen vals else c))), Some ([], []))
                else (e, None)
      | Some _ => (e, None)
      end
  | _ => (e, None)
  end.

Fixpoint deque_trace (ow : bool) (e : denv) (ops : list (list Z)) : list (doutcome * list Z) :=
  match ops with
  | [] => []
  | op :: rest => let '(e', o) := deque_step ow e op in (o, dump_denv e') :: deque_trace ow e' rest
  end.

Definition denv0 : denv := [None; None; None].

(* ---- rendering for the correspondence run ---------------------------------------------- *)

Definition render (show_events : bool) (x : outcome * list Z) : list Z :=
  match x with
  | (None, _) => [PRE]
  | (Some (ret, evs), dump) =>
      ret ++ [SEP] ++ dump ++ [SEP] ++ (if show_events then flat_map event_z evs else [])
  end.

(* the specification's line: returned values, dump, and the removed values *)
Definition render_spec (x : doutcome * list Z) : list Z :=
  match x with
  | (None, _) => [PRE]
  | (Some (ret, rem), dump) => ret ++ [SEP] ++ dump ++ [SEP] ++ rem
  end.

(* Aliasing pushes, [16; b; i] = push_back(buf[i]) and [17; b; i] = push_front(buf[i]) (the
   argument is a reference to an element of the same buffer): the runner rewrites them into the
   ordinary push of the value that element holds at that moment, so that the histories the theorems
   quantify over (lists of ordinary operations) include them; what the correspondence then checks
   is that the implementation treats an aliasing argument like any other. *)
Definition ring_desugar (e : env) (op : list Z) : list Z :=
  match op with
  | [c; b; i] =>
      if (c =? 16) || (c =? 17) then
        match env_get_u e b with
        | Some r => match index r i with
                    | Some (Live v, _) => [c - 15; b; v]
                    | _ => []
                    end
        | None => []
        end
      else op
  | _ => op
  end.

Fixpoint ring_trace_d (vr : variant) (ow : bool) (e : env) (ops : list (list Z))
  : list (outcome * list Z) :=
  match ops with
  | [] => []
  | op :: rest => let '(e', o) := ring_step vr ow e (ring_desugar e op) in
                  (o, dump_env e') :: ring_trace_d vr ow e' rest
  end.

Definition deque_desugar (e : denv) (op : list Z) : list Z :=
  match op with
  | [c; b; i] =>
      if (c =? 16) || (c =? 17) then
        match denv_get_u e b with
        | Some d => if (0 <=? i) && (i <? Zlen (ditems d)) then [c - 15; b; nth (Z.to_nat i) (ditems d) 0] else []
        | None => []
        end
      else op
  | _ => op
  end.

Fixpoint deque_trace_d (ow : bool) (e : denv) (ops : list (list Z)) : list (doutcome * list Z) :=
  match ops with
  | [] => []
  | op :: rest => let '(e', o) := deque_step ow e (deque_desugar e op) in
                  (o, dump_denv e') :: deque_trace_d ow e' rest
  end.

(* header line: [overwrite; variant; elem] where variant 1 = the tree's code, 0 = pinned
   upstream; elem 1 = element type with observable lifetime and the events are printed;
   0 = plain integers (no events observable); 2 = lifetime-tracked elements but the events
   are not printed *)
Definition ring_run (case : list (list Z)) : list (list Z) :=
  match case with
  | [ow; v; el] :: ops =>
      [] :: map (render (el =? 1))
                (ring_trace_d (if v =? 1 then fixed_variant else upstream_variant)
                              (negb (ow =? 0)) env0 ops)
  | _ => [[PRE]]
  end.

(* the specification run on the same case file (used to test theorem statements) *)
Definition ring_spec_run (case : list (list Z)) : list (list Z) :=
  match case with
  | [ow; v; el] :: ops => [] :: map render_spec (deque_trace_d (negb (ow =? 0)) denv0 ops)
  | _ => [[PRE]]
  end.
