(* Properties_C09.v — RingBuffer never destroys, duplicates or abandons an element wrongly.
   Only statements, each closed by [exact <lemma of RingProofs>], and Print Assumptions. *)
From Coq Require Import List ZArith Bool Lia Permutation.
From Tulz Require Import Common RingModel RingInv RingProofs RingAliasProofs RingReach.
Import ListNotations.
Local Open Scope Z_scope.

(* Per step of every history: no access outside the allocation or to a non-element, no
   destructor / assignment on raw storage, no array abandoned or released while it still
   contains an element (ev_ok), and the values destroyed or assigned over are exactly — in
   order, each once — the values the bounded deque removes in that step (the overwritten end,
   the tail cut by a shrinking resize, the old contents replaced by assignment, the contents
   at destruction). *)
Theorem C09_step_lifetimes : forall ow ops,
  Forall2 step_lifetimes_ok (ring_trace fixed_variant ow env0 ops) (deque_trace ow denv0 ops).
Proof. exact ring_step_lifetimes. Qed.
Print Assumptions C09_step_lifetimes.

(* the same for histories with pushes whose argument refers to an element of the same buffer (see Properties_C04,
   C04_alias_histories): their trace is the trace of a history of ordinary operations *)
Theorem C09_alias_histories : forall ow ops,
  Forall2 step_lifetimes_ok (ring_trace_d fixed_variant ow env0 ops)
                            (deque_trace ow denv0 (desugar_all fixed_variant ow env0 ops)).
Proof. exact alias_step_lifetimes. Qed.
Print Assumptions C09_alias_histories.

(* Conservation over every history: the elements ever constructed are exactly those destroyed
   or assigned over, those moved out to the caller by pop, and those still held by a live
   buffer — nothing is destroyed twice and nothing that holds a value is abandoned. *)
Theorem C09_conservation : forall ow ops e',
  fold_left (fun e op => fst (ring_step fixed_variant ow e op)) ops env0 = e' ->
  let evs := all_events (ring_trace fixed_variant ow env0 ops) in
  Permutation (constructed evs) (removed evs ++ moved_out evs ++ live_items e').
Proof. exact ring_conservation. Qed.
Print Assumptions C09_conservation.

(* per-operation form for an arbitrary element type: a shrinking resize with the head anywhere *)
Theorem C09_resize_events : forall (V : Type) (r : ring V) n r' evs,
  wf r -> resize fixed_variant r n = Some (r', evs) ->
  forallb ev_ok evs = true /\ removed evs = d_resize_removed (abs r) n /\
  constructed evs = [] /\ moved_out evs = [].
Proof. exact @resize_events. Qed.
Print Assumptions C09_resize_events.

Theorem C09_copy_assign_events : forall (V : Type) (dst src : ring V) r' evs,
  wf0 dst -> wf0 src -> copy_assign fixed_variant dst src = (r', evs) ->
  forallb ev_ok evs = true /\ removed evs = items dst /\ constructed evs = items src /\ moved_out evs = [].
Proof. exact @copy_assign_events. Qed.
Print Assumptions C09_copy_assign_events.

Theorem C09_destroy_events : forall (V : Type) (r : ring V),
  wf0 r -> forallb ev_ok (destroy r) = true /\ removed (destroy r) = items r.
Proof. exact @destroy_events. Qed.
Print Assumptions C09_destroy_events.

(* ... at every point of every history: whatever a buffer variable holds after the history, its destructor destroys
   exactly the elements it holds, each once, and touches nothing that is not an element *)
Theorem C09_reachable_destroy : forall ow ops b r,
  env_get (ring_run fixed_variant ow env0 ops) b = Some r ->
  forallb (@ev_ok Z) (destroy r) = true /\ removed (destroy r) = items r.
Proof. exact ring_reachable_destroy. Qed.
Print Assumptions C09_reachable_destroy.

(* The pinned upstream code (variant: physical destructor index in resize, copy assignment
   that does not release) violates the property; kernel-checked witnesses, which are the
   replays run against the implementation (corpus/C09). *)
Theorem C09_upstream_resize_refuted :
  exists ops, existsb (fun e => negb (ev_ok e)) (all_events (ring_trace upstream_variant false env0 ops)) = true.
Proof. exact upstream_resize_refuted. Qed.
Print Assumptions C09_upstream_resize_refuted.

Theorem C09_upstream_assign_refuted :
  exists ops, existsb (fun e => negb (ev_ok e)) (all_events (ring_trace upstream_variant false env0 ops)) = true
              /\ forall op, In op ops -> hd 0 op <> 5.
Proof. exact upstream_assign_refuted. Qed.
Print Assumptions C09_upstream_assign_refuted.

Example C09_nonvacuous :
  removed (all_events (ring_trace fixed_variant false env0
     [[0;0;5];[1;0;1];[1;0;2];[1;0;3];[4;0];[4;0];[4;0];[1;0;4];[1;0;5];[1;0;6];[1;0;7];[5;0;2];[13;0]]))
  = [6; 7; 4; 5].
Proof. vm_compute. reflexivity. Qed.
