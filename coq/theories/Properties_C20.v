(* Properties_C20.v — tulz::Thread runs its callable once, on a live copy, and reports completion.
   Only statements, each closed by [exact <lemma of ThreadProofs>], and Print Assumptions.
   Every theorem quantifies over every interleaving (label sequence; labels that are not enabled
   are skipped) of the starter with the new thread. Partial by nature: C++ object lifetime and
   lambda capture semantics are modelled (ThreadModel.v). *)
From Coq Require Import List ZArith Bool Lia.
From Tulz Require Import Common ThreadModel ThreadProofs.
Import ListNotations.

(* with the callable captured by copy the new thread never uses an object whose lifetime has
   ended, however late it is scheduled (also for the Runnable overload, in every variant) *)
Theorem C20_live_copy : forall is_runnable ls, uaf (trun true is_runnable tinit ls) = false.
Proof. exact live_copy. Qed.
Print Assumptions C20_live_copy.

Theorem C20_runnable_live : forall by_copy ls, uaf (trun by_copy true tinit ls) = false.
Proof. exact runnable_live. Qed.
Print Assumptions C20_runnable_live.

(* the callable / run() is invoked at most once; isFinished() is true only after it has
   returned (the new thread has ended); join() returns only after that, and then it has run
   exactly once; a Runnable is deleted only after its run() and exactly once by then *)
Theorem C20_once_and_ordered : forall by_copy is_runnable ls,
  let s := trun by_copy is_runnable tinit ls in
  (invoked s <= 1)%nat /\
  (finished s = true -> npc s = 2%nat /\ invoked s = 1%nat) /\
  (spc s = 4%nat -> finished s = true /\ invoked s = 1%nat) /\
  (deleted s = (if is_runnable && finished s then 1 else 0)%nat).
Proof. exact once_and_ordered. Qed.
Print Assumptions C20_once_and_ordered.

(* join() can always complete: whatever happened so far, the remaining steps of the new thread
   followed by the starter's steps are enabled and lead to the joined state *)
Theorem C20_join_completes : forall by_copy is_runnable ls,
  (spc (trun by_copy is_runnable tinit ls) <> 0)%nat ->
  spc (trun by_copy is_runnable (trun by_copy is_runnable tinit ls) [NInvoke; NFinish; SReturn; SClobber; SJoin]) = 4%nat.
Proof. exact join_completes. Qed.
Print Assumptions C20_join_completes.

(* The pinned upstream capture ([&]) is refuted: the new thread, scheduled after start() has
   returned, invokes the destroyed parameter of start(). *)
Theorem C20_upstream_refuted : exists ls, uaf (trun false false tinit ls) = true.
Proof. exact upstream_capture_refuted. Qed.
Print Assumptions C20_upstream_refuted.

Example C20_nonvacuous :
  let s := trun true false tinit [SEnter; SReturn; SClobber; SJoin; NInvoke; SJoin; NFinish; SJoin] in
  (spc s, npc s, invoked s, finished s, uaf s) = (4, 2, 1, true, false)%nat.
Proof. vm_compute. reflexivity. Qed.
