(* SubjectLemmasA.v — list helpers, the simulation relation between SubjectModel and
   SubjectSpec, and the frame conditions of the interpreter functions. *)
From Coq Require Import List ZArith Bool Lia Arith Permutation.
From Tulz Require Import Common SubjectModel SubjectSpec.
Import ListNotations.
Local Open Scope Z_scope.

(* ---------- list_set ---------- *)
Lemma length_list_set {A} (l : list A) k x : length (list_set l k x) = length l.
Proof. revert k; induction l; intros [|k]; simpl; auto. Qed.

Lemma nth_error_list_set {A} (l : list A) k x j :
  nth_error (list_set l k x) j =
  match nth_error l j with Some y => Some (if Nat.eqb j k then x else y) | None => None end.
Proof.
  revert k j; induction l as [|a l IH]; intros k j.
  - destruct j; reflexivity.
  - destruct k, j; simpl; auto.
    destruct (nth_error l j); reflexivity.
Qed.

Lemma nth_error_list_set_eq {A} (l : list A) k x y :
  nth_error l k = Some y -> nth_error (list_set l k x) k = Some x.
Proof. intros H. rewrite nth_error_list_set, H, Nat.eqb_refl. reflexivity. Qed.

Lemma nth_error_list_set_neq {A} (l : list A) k x j :
  j <> k -> nth_error (list_set l k x) j = nth_error l j.
Proof.
  intros H. rewrite nth_error_list_set. destruct (nth_error l j); auto.
  apply Nat.eqb_neq in H. rewrite H. reflexivity.
Qed.

Lemma list_set_same {A} (l : list A) k x : nth_error l k = Some x -> list_set l k x = l.
Proof.
  revert k; induction l as [|a l IH]; intros [|k] H; simpl in *; auto.
  - congruence.
  - f_equal; auto.
Qed.

Lemma nth_list_set_neq {A} (l : list A) k x j d : j <> k -> nth j (list_set l k x) d = nth j l d.
Proof.
  revert k j; induction l as [|a l IH]; intros k j H.
  - reflexivity.
  - destruct k, j; simpl; auto. congruence.
Qed.

Lemma nth_list_set_eq {A} (l : list A) k x d : (k < length l)%nat -> nth k (list_set l k x) d = x.
Proof.
  revert k; induction l as [|a l IH]; intros k H; simpl in H.
  - lia.
  - destruct k; simpl; auto. apply IH. lia.
Qed.

Lemma nth_error_same_length {A B} (l : list A) (l' : list B) k x :
  length l = length l' -> nth_error l k = Some x -> exists y, nth_error l' k = Some y.
Proof.
  intros Hl H. assert (Hk : (k < length l')%nat).
  { rewrite <- Hl. apply nth_error_Some. congruence. }
  destruct (nth_error l' k) eqn:E; eauto. apply nth_error_None in E. lia.
Qed.

Lemma nth_error_lt {A} (l : list A) k x : nth_error l k = Some x -> (k < length l)%nat.
Proof. intros H. apply nth_error_Some. congruence. Qed.

(* ---------- filter / map / rev / NoDup ---------- *)
Lemma filter_map_comm {A B} (f : A -> B) (p : B -> bool) l :
  filter p (map f l) = map f (filter (fun x => p (f x)) l).
Proof. induction l; simpl; auto. destruct (p (f a)); simpl; congruence. Qed.

Lemma filter_rev' {A} (p : A -> bool) l : filter p (rev l) = rev (filter p l).
Proof.
  induction l; simpl; auto. rewrite filter_app, IHl. simpl.
  destruct (p a); simpl; auto. rewrite app_nil_r. reflexivity.
Qed.

Lemma filter_all {A} (p : A -> bool) l : (forall x, In x l -> p x = true) -> filter p l = l.
Proof.
  induction l; simpl; intros H; auto. rewrite (H a) by auto. f_equal. apply IHl. auto.
Qed.

Lemma filter_perm {A} (p : A -> bool) l :
  Permutation l (filter p l ++ filter (fun x => negb (p x)) l).
Proof.
  induction l; simpl; auto. destruct (p a); simpl.
  - constructor. auto.
  - apply Permutation_cons_app. auto.
Qed.

Lemma NoDup_app_iff {A} (l m : list A) :
  NoDup (l ++ m) <-> NoDup l /\ NoDup m /\ (forall x, In x l -> ~ In x m).
Proof.
  induction l; simpl.
  - split. + intros H. repeat split; auto. constructor. + intros (_ & H & _). auto.
  - split.
    + intros H. inversion H as [|? ? Hn Hd]; subst. apply IHl in Hd. destruct Hd as (H1 & H2 & H3).
      repeat split; auto.
      * constructor; auto. intros Hi. apply Hn. apply in_or_app. auto.
      * intros x [->|Hx]; auto. intros Hm. apply Hn. apply in_or_app. auto.
    + intros (H1 & H2 & H3). inversion H1; subst. constructor.
      * intros Hi. apply in_app_or in Hi. destruct Hi as [Hi|Hi]; auto. eapply H3; eauto.
      * apply IHl. repeat split; auto.
Qed.

Lemma NoDup_map_inj {A B} (f : A -> B) l a b :
  NoDup (map f l) -> In a l -> In b l -> f a = f b -> a = b.
Proof.
  induction l; simpl; intros Hn Ha Hb Hf. contradiction.
  inversion Hn; subst.
  destruct Ha as [->|Ha], Hb as [->|Hb]; auto.
  - exfalso. apply H1. rewrite Hf. apply in_map. auto.
  - exfalso. apply H1. rewrite <- Hf. apply in_map. auto.
Qed.

Lemma NoDup_map_filter {A B} (f : A -> B) (p : A -> bool) l :
  NoDup (map f l) -> NoDup (map f (filter p l)).
Proof.
  induction l; simpl; intros H; auto. inversion H; subst.
  destruct (p a); simpl; auto. constructor; auto.
  intros Hi. apply H2. apply in_map_iff in Hi. destruct Hi as (x & Hx & Hi).
  apply filter_In in Hi. rewrite <- Hx. apply in_map. tauto.
Qed.

Lemma in_map_fst {A B} (a : A) (l : list (A * B)) : In a (map fst l) <-> exists b, In (a, b) l.
Proof.
  rewrite in_map_iff. split.
  - intros ([x y] & E & H). simpl in E. subst. eauto.
  - intros (b & H). exists (a, b). auto.
Qed.

Lemma in_map_snd {A B} (b : B) (l : list (A * B)) : In b (map snd l) <-> exists a, In (a, b) l.
Proof.
  rewrite in_map_iff. split.
  - intros ([x y] & E & H). simpl in E. subst. eauto.
  - intros (a & H). exists (a, b). auto.
Qed.

Lemma memZ_In x l : memZ x l = true <-> In x l.
Proof.
  unfold memZ. rewrite existsb_exists. split.
  - intros (y & H & E). apply Z.eqb_eq in E. subst. auto.
  - intros H. exists x. split; auto. apply Z.eqb_refl.
Qed.

Lemma memN_In x l : memN x l = true <-> In x l.
Proof.
  unfold memN. rewrite existsb_exists. split.
  - intros (y & H & E). apply Nat.eqb_eq in E. subst. auto.
  - intros H. exists x. split; auto. apply Nat.eqb_refl.
Qed.

Lemma memN_false x l : memN x l = false <-> ~ In x l.
Proof. rewrite <- memN_In. destruct (memN x l); split; congruence. Qed.

Lemma memZ_false x l : memZ x l = false <-> ~ In x l.
Proof. rewrite <- memZ_In. destruct (memZ x l); split; congruence. Qed.

(* ---------- events ---------- *)
Lemma calls_of_app l m : calls_of (l ++ m) = calls_of l ++ calls_of m.
Proof. unfold calls_of. apply flat_map_app. Qed.
Lemma frees_of_app l m : frees_of (l ++ m) = frees_of l ++ frees_of m.
Proof. unfold frees_of. apply flat_map_app. Qed.
Lemma calls_of_rev l : calls_of (rev l) = rev (calls_of l).
Proof.
  induction l as [|e l IH]; simpl; auto. rewrite calls_of_app, IH. simpl.
  destruct e; simpl; auto. rewrite app_nil_r. reflexivity.
Qed.

(* ---------- the relation ---------- *)
Definition dob : obs := mkObs false false false 0.
Definition recof (hp : list obs) (p : Z * nat) : arec :=
  mkRec (fst p) (snd p) (o_valid (nth (snd p) hp dob)) (o_muted (nth (snd p) hp dob))
        (o_script (nth (snd p) hp dob)).
Definition own (s : subject) : list nat := map snd (observers s) ++ graveyard s.

Record Rs (hp : list obs) (s : subject) (a : asubj) : Prop := mkRs {
  rs_active : active s = map fst (observers s);
  rs_nodup : NoDup (map fst (observers s));
  rs_lt : forall sid, In sid (map fst (observers s)) -> sid < counter s;
  rs_counter : acounter a = counter s;
  rs_subs : subs a = rev (map (recof hp) (observers s));
  rs_grave : depth s = 0%nat -> graveyard s = [];
  rs_tomb : counter s < 0 -> observers s = [] }.

(* the handle (sid, o) designates at most the pair (sid, o) of Subject s, now and later *)
Definition hok (s : subject) (sid : Z) (o : nat) : Prop :=
  (forall o', In (sid, o') (observers s) -> o' = o) /\ (sid < counter s \/ counter s < 0).

Definition Hrel (sl : list subject) (hd : handle) (ah : option (nat * Z)) : Prop :=
  match ah with
  | None => hd = handle0
  | Some (k, sid) => exists o s, hd = mkH (Some sid) (Some k) (Some o) /\ nth_error sl k = Some s /\ hok s sid o
  end.

Definition owned (sl : list subject) (o : nat) : Prop :=
  exists k s, nth_error sl k = Some s /\ In o (own s).

Record Rabs (w : world) (aw : aworld) : Prop := mkRabs {
  r_len : length (subjects w) = length (asubjects aw);
  r_subj : forall k s a, nth_error (subjects w) k = Some s -> nth_error (asubjects aw) k = Some a ->
                         Rs (heap w) s a;
  r_hlen : length (handles w) = length (ahandles aw);
  r_hand : forall h hd ah, nth_error (handles w) h = Some hd -> nth_error (ahandles aw) h = Some ah ->
                           Hrel (subjects w) hd ah;
  r_next : anext aw = length (heap w);
  r_calls : acalls aw = calls_of (log w) }.

Record Rmem (w : world) : Prop := mkRmem {
  r_own_inj : forall k1 k2 s1 s2 o, nth_error (subjects w) k1 = Some s1 -> nth_error (subjects w) k2 = Some s2 ->
                                   In o (own s1) -> In o (own s2) -> k1 = k2;
  r_own_nodup : forall k s, nth_error (subjects w) k = Some s -> NoDup (own s);
  r_owned_alive : forall o, owned (subjects w) o -> exists ob, nth_error (heap w) o = Some ob /\ o_alive ob = true;
  r_alive_owned : forall o ob, nth_error (heap w) o = Some ob -> o_alive ob = true -> owned (subjects w) o;
  r_free_nodup : NoDup (frees_of (log w));
  r_free : forall o, In o (frees_of (log w)) <-> exists ob, nth_error (heap w) o = Some ob /\ o_alive ob = false;
  r_stack : forall o, In o (stack w) ->
                      exists k s, nth_error (subjects w) k = Some s /\ In o (own s) /\ (0 < depth s)%nat }.

Definition R (w : world) (aw : aworld) : Prop := Rabs w aw /\ Rmem w.

(* ---------- frames ---------- *)
Record sframe (n : nat) (s s' : subject) : Prop := mkSf {
  sf_depth : depth s' = depth s;
  sf_counter : counter s <= counter s';
  sf_tomb : counter s < 0 -> counter s' < 0;
  sf_old : forall sid o, In (sid, o) (observers s') -> sid < counter s -> In (sid, o) (observers s);
  sf_own_old : forall o, In o (own s') -> (o < n)%nat -> In o (own s);
  sf_keep : (0 < depth s)%nat -> forall o, In o (own s) -> In o (own s') }.

Record frame (w w' : world) : Prop := mkFr {
  f_stack : stack w' = stack w;
  f_log : exists new, log w' = new ++ log w;
  f_heap : (length (heap w) <= length (heap w'))%nat;
  f_slen : length (subjects w') = length (subjects w);
  f_subj : forall k s s', nth_error (subjects w) k = Some s -> nth_error (subjects w') k = Some s' ->
                          sframe (length (heap w)) s s' }.

Lemma sframe_refl n s : sframe n s s.
Proof. constructor; auto; lia. Qed.

Lemma sframe_trans n n' s s' s'' : (n <= n')%nat -> sframe n s s' -> sframe n' s' s'' -> sframe n s s''.
Proof.
  intros Hn [a1 a2 a3 a4 a5 a6] [b1 b2 b3 b4 b5 b6]. constructor.
  - congruence.
  - lia.
  - auto.
  - intros sid o Hi Hlt. apply a4; auto. apply b4; auto. lia.
  - intros o Hi Hlt. apply a5; auto. apply b5; auto. lia.
  - intros Hd o Hi. apply b6; auto. rewrite a1. auto.
Qed.

Lemma frame_refl w : frame w w.
Proof.
  constructor; auto.
  - exists []. reflexivity.
  - intros k s s' H1 H2. rewrite H1 in H2. inversion H2; subst. apply sframe_refl.
Qed.

Lemma frame_trans w w' w'' : frame w w' -> frame w' w'' -> frame w w''.
Proof.
  intros [a1 [n1 a2] a3 a4 a5] [b1 [n2 b2] b3 b4 b5]. constructor.
  - congruence.
  - exists (n2 ++ n1). rewrite b2, a2, app_assoc. reflexivity.
  - lia.
  - congruence.
  - intros k s s'' H1 H2.
    destruct (nth_error_same_length _ (subjects w') _ _ (eq_sym a4) H1) as [s' H3].
    eapply sframe_trans; [apply a3| eapply a5; eauto | eapply b5; eauto].
Qed.

(* results of the two interpreters in relation *)
Inductive rel_res (w : world) : res world -> res aworld -> Prop :=
| rr_fuel : rel_res w (Err OutOfFuel) (Err OutOfFuel)
| rr_ok w' aw' : R w' aw' -> frame w w' -> rel_res w (Ok w') (Ok aw').

Lemma rel_res_frame w w1 rc ra : frame w w1 -> rel_res w1 rc ra -> rel_res w rc ra.
Proof.
  intros Hf H. destruct H as [|w' aw' HR Hf']; constructor; auto. eapply frame_trans; eauto.
Qed.

Lemma rel_res_bind w rc ra (fc : world -> res world) (fa : aworld -> res aworld) :
  rel_res w rc ra ->
  (forall w1 aw1, R w1 aw1 -> frame w w1 -> rel_res w1 (fc w1) (fa aw1)) ->
  rel_res w (bind rc fc) (bind ra fa).
Proof.
  intros H Hf. destruct H as [|w' aw' HR Hfr]; simpl.
  - constructor.
  - eapply rel_res_frame; eauto.
Qed.

Lemma rel_res_refl w aw : R w aw -> rel_res w (Ok w) (Ok aw).
Proof. intros H. constructor; auto. apply frame_refl. Qed.
