(* ThreadModel.v — executable model of tulz::Thread::start / join / isFinished
   (include/tulz/threading/Thread.h, src/threading/Thread.cpp), definitions only.

   Two threads: the starter and the new thread. Objects with lifetimes: the caller's callable
   (alive throughout), the by-value parameter [ptr] of start() (alive from the call until
   start() returns), the closure stored in the std::thread (alive until the thread function
   returns) and, for the Runnable overload, the heap Runnable (deleted by the new thread after
   run()). What the closure holds decides what the new thread dereferences when it finally runs:
   [by_copy] = true: a copy of the callable inside the closure (the tree's code);
   [by_copy] = false: a reference to the parameter [ptr] (the pinned upstream code, [&]).
   Steps of the starter: SEnter (call start(): parameter constructed, closure made, thread
   spawned), SReturn (start() returns: the parameter is destroyed), SClobber (the caller keeps
   using its stack), SJoin (join(): enabled once the new thread has ended). Steps of the new
   thread: NInvoke (call the callable / run()), NFinish (the callable returned; for a Runnable
   delete it; m_isFinished = true; the thread function returns). *)
From Coq Require Import List ZArith Bool Lia Arith.
From Tulz Require Import Common.
Import ListNotations.

Inductive tlabel := SEnter | SReturn | SClobber | SJoin | NInvoke | NFinish.

Record tstate := mkT {
  spc : nat;              (* starter: 0 before start, 1 inside start(), 2 returned, 3 reused its stack and calls join(), 4 joined *)
  npc : nat;              (* new thread: 0 not yet run, 1 inside the callable, 2 ended *)
  invoked : nat;          (* how many times the callable / run() was entered *)
  finished : bool;        (* m_isFinished *)
  deleted : nat;          (* Runnable overload: how many times the Runnable was deleted *)
  uaf : bool              (* the new thread used an object whose lifetime had ended *)
}.
Definition tinit : tstate := mkT 0 0 0 false 0 false.

(* is_runnable: the Runnable overload ([this, runnable] captured by copy in every variant) *)
Definition tstep (by_copy is_runnable : bool) (s : tstate) (l : tlabel) : option tstate :=
  match l with
  | SEnter => if Nat.eqb (spc s) 0 then Some (mkT 1 (npc s) (invoked s) (finished s) (deleted s) (uaf s)) else None
  | SReturn => if Nat.eqb (spc s) 1 then Some (mkT 2 (npc s) (invoked s) (finished s) (deleted s) (uaf s)) else None
  | SClobber => if Nat.eqb (spc s) 2 then Some (mkT 3 (npc s) (invoked s) (finished s) (deleted s) (uaf s)) else None
  | SJoin => if Nat.eqb (spc s) 3 && Nat.eqb (npc s) 2
             then Some (mkT 4 (npc s) (invoked s) (finished s) (deleted s) (uaf s)) else None
  | NInvoke =>
      if negb (Nat.eqb (spc s) 0) && Nat.eqb (npc s) 0 then
        (* the parameter of start() is alive only while the starter is inside start() *)
        let dangling := negb by_copy && negb is_runnable && negb (Nat.eqb (spc s) 1) in
        Some (mkT (spc s) 1 (S (invoked s)) (finished s) (deleted s) (uaf s || dangling))
      else None
  | NFinish =>
      if Nat.eqb (npc s) 1
      then Some (mkT (spc s) 2 (invoked s) true (if is_runnable then S (deleted s) else deleted s) (uaf s))
      else None
  end.

Fixpoint trun (by_copy is_runnable : bool) (s : tstate) (ls : list tlabel) : tstate :=
  match ls with
  | [] => s
  | l :: rest => match tstep by_copy is_runnable s l with
                 | Some s' => trun by_copy is_runnable s' rest
                 | None => trun by_copy is_runnable s rest
                 end
  end.

(* ---- runner for the correspondence check ------------------------------------------------------
   The controlled scheduler stops the starter inside start() right after the std::thread was
   created (its constructor is a scheduling point), so the four starter steps are separate labels. *)
Local Open Scope Z_scope.

Definition labels_of_harness (s : tstate) (l : list Z) : option (list tlabel) :=
  match l with
  | [0] => Some (match spc s with
                 | O => [SEnter]
                 | 1%nat => [SReturn]
                 | 2%nat => [SClobber]
                 | _ => [SJoin]
                 end)
  | [1] => Some (match npc s with O => [NInvoke] | _ => [NFinish] end)
  | _ => None
  end.

Definition UAFZ : Z := -777007.

Fixpoint thread_run_lines (by_copy is_runnable : bool) (s : tstate) (ls : list (list Z)) : list (list Z) :=
  match ls with
  | [] => []
  | l :: rest =>
      match labels_of_harness s l with
      | None => [PRE] :: thread_run_lines by_copy is_runnable s rest
      | Some labs =>
          let enabled := match labs with
                         | lab :: _ => match tstep by_copy is_runnable s lab with Some _ => true | None => false end
                         | [] => false
                         end in
          let s' := if enabled then trun by_copy is_runnable s labs else s in
          if uaf s' then [[UAFZ]]
          else [b2z enabled; Z.of_nat (spc s'); Z.of_nat (npc s'); Z.of_nat (invoked s'); b2z (finished s'); Z.of_nat (deleted s')]
               :: thread_run_lines by_copy is_runnable s' rest
      end
  end.

(* case: header [variant; callable kind (0 small closure, 1 large closure, 2 function pointer, 3 Runnable)], then labels:
   0 = starter step, 1 = new-thread step *)
Definition thread_run (case : list (list Z)) : list (list Z) :=
  match case with
  | [v; kind] :: ls => [] :: thread_run_lines (negb (v =? 0)) (kind =? 3) tinit ls
  | _ => [[PRE]]
  end.
