(* ArrayLemmasC.v — closed forms of the Array operations on well-formed arrays. *)
From Coq Require Import List ZArith Bool Lia ZifyBool Permutation.
From Tulz Require Import Common RingModel RingInv ArrayModel ArrayInv ArrayLemmasA ArrayLemmasB.
Import ListNotations.
Local Open Scope Z_scope.

(* ---------- well-formedness of the shapes that occur ---------- *)

Lemma awf_live cls n (l : list Z) : n = Zlen l -> awf cls (mkArr n (map Live l)).
Proof.
  intros ->. unfold awf; cbn [asize adata]. split; [apply Zlen_nonneg|].
  split; [unfold Zlen; rewrite map_length; reflexivity|].
  split; [intros _; apply alllive_map_live | apply noshell_map_live].
Qed.

Lemma awf_raw n : 0 <= n -> awf false (mkArr n (repeat Raw (Z.to_nat n))).
Proof.
  intros H. unfold awf; cbn [asize adata]. split; [exact H|].
  split; [unfold Zlen; rewrite repeat_length; lia|].
  split; [discriminate | apply noshell_repeat_raw].
Qed.

Lemma awf_empty cls : awf cls (@empty_arr Z).
Proof.
  unfold awf, empty_arr; cbn [asize adata]. split; [lia|]. split; [reflexivity|].
  split; [reflexivity | constructor].
Qed.

Lemma alllive_app (a b : list (slot Z)) :
  forallb is_live a = true -> forallb is_live b = true -> forallb is_live (a ++ b) = true.
Proof. intros Ha Hb. rewrite forallb_app, Ha, Hb. reflexivity. Qed.

Lemma noshell_app (a b : list (slot Z)) :
  Forall (fun s => s <> Shell) a -> Forall (fun s => s <> Shell) b -> Forall (fun s => s <> Shell) (a ++ b).
Proof. intros Ha Hb. apply Forall_app. split; assumption. Qed.

Lemma awf_firstn cls a n : awf cls a -> 0 <= n <= asize a ->
  awf cls (mkArr n (firstn (Z.to_nat n) (adata a))).
Proof.
  intros (W0 & W1 & W2 & W3) H. unfold awf; cbn [asize adata]. split; [lia|].
  split; [unfold Zlen in *; rewrite firstn_length; lia|].
  split; [intros Hc; apply alllive_firstn; auto | apply Forall_firstn'; exact W3].
Qed.

Lemma awf_grow_live cls a n (l : list Z) : awf cls a -> n = asize a + Zlen l ->
  awf cls (mkArr n (adata a ++ map Live l)).
Proof.
  intros (W0 & W1 & W2 & W3) ->. unfold awf; cbn [asize adata]. split; [pose proof (Zlen_nonneg l); lia|].
  split; [rewrite Zlen_app; unfold Zlen in *; rewrite map_length; lia|].
  split; [intros Hc; apply alllive_app; [auto | apply alllive_map_live]
         | apply noshell_app; [exact W3 | apply noshell_map_live]].
Qed.

Lemma awf_realloc a n : awf false a -> 0 <= n -> awf false (mkArr n (realloc (adata a) n)).
Proof.
  intros (W0 & W1 & W2 & W3) H. unfold awf, realloc; cbn [asize adata]. split; [exact H|].
  split; [rewrite Zlen_app; unfold Zlen in *; rewrite firstn_length, repeat_length; lia|].
  split; [discriminate | apply noshell_app; [apply Forall_firstn'; exact W3 | apply noshell_repeat_raw]].
Qed.

(* ---------- constructors ---------- *)

Lemma construct_at_fresh_repeat (v : Z) k :
  construct_at (repeat Raw k) 0 (repeat v k) = (map Live (repeat v k), map (@ECtor Z) (repeat v k)).
Proof.
  pose proof (construct_at_fresh (repeat v k)) as E. rewrite repeat_length in E. exact E.
Qed.

Lemma ctor_size_true n :
  ctor_size 0 true n = (mkArr n (map Live (repeat 0 (Z.to_nat n))), map ECtor (repeat 0 (Z.to_nat n))).
Proof. unfold ctor_size. rewrite construct_at_fresh_repeat. reflexivity. Qed.

Lemma ctor_size_false n : ctor_size 0 false n = (mkArr n (repeat Raw (Z.to_nat n)), []).
Proof. reflexivity. Qed.

Lemma ctor_fill_eq n (v : Z) :
  ctor_fill n v = (mkArr n (map Live (repeat v (Z.to_nat n))), map ECtor (repeat v (Z.to_nat n))).
Proof. unfold ctor_fill. rewrite construct_at_fresh_repeat. reflexivity. Qed.

Lemma ctor_list_eq (vals : list Z) :
  ctor_list vals = (mkArr (Zlen vals) (map Live vals), map ECtor vals).
Proof. unfold ctor_list. rewrite to_nat_Zlen, construct_at_fresh. reflexivity. Qed.

Lemma ctor_ptr_eq cls (vals : list Z) :
  ctor_ptr afixed cls vals (Zlen vals)
  = (mkArr (Zlen vals) (map Live vals), if cls then map ECtor vals else []).
Proof.
  unfold ctor_ptr. cbn [afixed ptr_ctor_uses_param]. rewrite Z.leb_refl, to_nat_Zlen, firstn_all.
  destruct cls.
  - rewrite construct_at_fresh, app_nil_r. reflexivity.
  - rewrite Nat.sub_diag. cbn [repeat]. rewrite app_nil_r. reflexivity.
Qed.

Lemma acontents_ub_wf cls a : awf cls a -> acontents_ub a = [].
Proof.
  intros (W0 & W1 & _). unfold acontents_ub. rewrite W1, Z.leb_refl. reflexivity.
Qed.

(* ---------- copy ---------- *)

Lemma copy_all_live (d : list (slot Z)) : forallb is_live d = true ->
  map fst (map (@copy_slot Z) d) = d /\ flat_map snd (map (@copy_slot Z) d) = map ECtor (slot_vals d).
Proof.
  induction d as [|s t IH]; intros H; [split; reflexivity|].
  cbn [forallb] in H. apply andb_prop in H. destruct H as [H1 H2].
  destruct (IH H2) as [E1 E2]. destruct s as [|v|]; cbn in H1; try discriminate.
  cbn [map copy_slot fst snd flat_map]. rewrite E1, E2. split; reflexivity.
Qed.

Lemma ctor_copy_eq cls src : awf cls src ->
  ctor_copy cls src = (src, if cls then map ECtor (slot_vals (adata src)) else []).
Proof.
  intros (W0 & W1 & W2 & W3). destruct src as [n d]. cbn [asize adata] in *.
  unfold ctor_copy; cbn [asize adata]. subst n.
  destruct cls.
  - unfold copy_elems. rewrite to_nat_Zlen, firstn_all, Nat.sub_diag, Z.leb_refl.
    destruct (copy_all_live d (W2 eq_refl)) as [E1 E2]. rewrite E1, E2.
    cbn [repeat]. rewrite !app_nil_r. reflexivity.
  - unfold memcpy_new. rewrite to_nat_Zlen, firstn_all, Nat.sub_diag, Z.leb_refl.
    cbn [repeat]. rewrite app_nil_r. reflexivity.
Qed.

(* ---------- destruction ---------- *)

Lemma dtor_true a : awf true a ->
  dtor true a = map (@EDtor Z) (adata a) ++ [EFree (repeat Raw (length (adata a)))].
Proof.
  intros (W0 & W1 & W2 & W3). unfold dtor.
  rewrite (destroy_range_shrink (adata a) 0 (asize a)) by (try lia; exact W1).
  change (Z.to_nat 0) with 0%nat. cbn [firstn skipn app]. rewrite Nat.sub_0_r. reflexivity.
Qed.

Lemma dtor_false (a : arr Z) : dtor false a = [EFree []].
Proof. reflexivity. Qed.

Lemma evsum_dtor_true a : awf true a -> evsum (dtor true a) [] (slot_vals (adata a)) [].
Proof.
  intros W. rewrite dtor_true by exact W. destruct W as (W0 & W1 & W2 & W3).
  eapply evsum_eq; [apply evsum_app; [apply evsum_dtor; auto | apply evsum_free_raw]| | |];
    rewrite ?app_nil_r; reflexivity.
Qed.

(* ---------- resize ---------- *)

Lemma realloc_shrink (d : list (slot Z)) n : 0 <= n <= Zlen d -> realloc d n = firstn (Z.to_nat n) d.
Proof.
  intros H. unfold realloc. replace (Z.to_nat n - length d)%nat with 0%nat by (unfold Zlen in H; lia).
  cbn [repeat]. apply app_nil_r.
Qed.

Lemma realloc_grow (d : list (slot Z)) n : Zlen d <= n ->
  realloc d n = d ++ repeat Raw (Z.to_nat n - length d).
Proof.
  intros H. unfold realloc. rewrite firstn_all2 by (unfold Zlen in H; lia). reflexivity.
Qed.

(* shrinking (or equal) resize of a class array *)
Lemma resize_shrink_true_gen a n :
  awf true a -> 0 <= n <= asize a ->
  destroy_range true (adata a) n (asize a)
  = (firstn (Z.to_nat n) (adata a) ++ repeat Raw (length (adata a) - Z.to_nat n),
     map (@EDtor Z) (skipn (Z.to_nat n) (adata a))) /\
  realloc (firstn (Z.to_nat n) (adata a) ++ repeat Raw (length (adata a) - Z.to_nat n)) n
  = firstn (Z.to_nat n) (adata a) /\
  skipn (Z.to_nat n) (firstn (Z.to_nat n) (adata a) ++ repeat Raw (length (adata a) - Z.to_nat n))
  = repeat Raw (length (adata a) - Z.to_nat n).
Proof.
  intros (W0 & W1 & W2 & W3) H. split; [apply destroy_range_shrink; [exact H | exact W1]|].
  assert (L : length (firstn (Z.to_nat n) (adata a)) = Z.to_nat n)
    by (rewrite firstn_length; unfold Zlen in W1; lia).
  split.
  - unfold realloc. rewrite <- L at 1. rewrite firstn_app, firstn_all, Nat.sub_diag. cbn [firstn].
    rewrite app_nil_r.
    replace (Z.to_nat n - _)%nat with 0%nat
      by (rewrite app_length, repeat_length, L; unfold Zlen in W1; lia).
    cbn [repeat]. apply app_nil_r.
  - rewrite <- L at 1. rewrite skipn_app, skipn_all, Nat.sub_diag. reflexivity.
Qed.

Lemma resize_default_shrink_true a n : awf true a -> 0 <= n <= asize a ->
  resize_default 0 true a n
  = (mkArr n (firstn (Z.to_nat n) (adata a)),
     map (@EDtor Z) (skipn (Z.to_nat n) (adata a)) ++ [EFree (repeat Raw (length (adata a) - Z.to_nat n))]).
Proof.
  intros W H. destruct (resize_shrink_true_gen a n W H) as (E1 & E2 & E3).
  unfold resize_default. rewrite E1, E2, E3.
  replace (asize a <? n) with false by lia. reflexivity.
Qed.

Lemma resize_fill_shrink_true a n (v : Z) : awf true a -> 0 <= n <= asize a ->
  resize_fill true a n v
  = (mkArr n (firstn (Z.to_nat n) (adata a)),
     map (@EDtor Z) (skipn (Z.to_nat n) (adata a)) ++ [EFree (repeat Raw (length (adata a) - Z.to_nat n))]).
Proof.
  intros W H. destruct (resize_shrink_true_gen a n W H) as (E1 & E2 & E3).
  unfold resize_fill. rewrite E1, E2, E3.
  replace (asize a <? n) with false by lia. reflexivity.
Qed.

Lemma construct_at_grow_repeat (d : list (slot Z)) sz (v : Z) k : Zlen d = sz ->
  construct_at (d ++ repeat Raw k) sz (repeat v k) = (d ++ map Live (repeat v k), map (@ECtor Z) (repeat v k)).
Proof.
  intros <-. pose proof (construct_at_grow d (repeat v k)) as E. rewrite repeat_length in E. exact E.
Qed.

Lemma resize_default_grow_true a n : awf true a -> asize a < n ->
  resize_default 0 true a n
  = (mkArr n (adata a ++ map Live (repeat 0 (Z.to_nat n - length (adata a)))),
     [EFree []] ++ map ECtor (repeat 0 (Z.to_nat n - length (adata a)))).
Proof.
  intros (W0 & W1 & W2 & W3) H. unfold resize_default.
  rewrite destroy_range_grow by lia. rewrite realloc_grow by lia.
  replace (asize a <? n) with true by lia. cbn [andb].
  replace (Z.to_nat (n - asize a)) with (Z.to_nat n - length (adata a))%nat by (unfold Zlen in W1; lia).
  rewrite construct_at_grow_repeat by exact W1.
  rewrite skipn_all2 by (unfold Zlen in W1; lia). reflexivity.
Qed.

Lemma resize_fill_grow cls a n (v : Z) : awf cls a -> asize a < n ->
  resize_fill cls a n v
  = (mkArr n (adata a ++ map Live (repeat v (Z.to_nat n - length (adata a)))),
     [EFree []] ++ (if cls then map ECtor (repeat v (Z.to_nat n - length (adata a))) else [])).
Proof.
  intros (W0 & W1 & W2 & W3) H. unfold resize_fill.
  assert (E1 : destroy_range cls (adata a) n (asize a) = (adata a, [])).
  { destruct cls; [apply destroy_range_grow; lia | reflexivity]. }
  rewrite E1. rewrite realloc_grow by lia.
  replace (asize a <? n) with true by lia.
  replace (Z.to_nat (n - asize a)) with (Z.to_nat n - length (adata a))%nat by (unfold Zlen in W1; lia).
  rewrite construct_at_grow_repeat by exact W1.
  rewrite skipn_all2 by (unfold Zlen in W1; lia).
  destruct cls; [reflexivity|]. rewrite filter_ub_ctor. reflexivity.
Qed.

Lemma resize_default_false (a : arr Z) n : resize_default 0 false a n = (mkArr n (realloc (adata a) n), [EFree []]).
Proof. unfold resize_default. cbn [destroy_range]. rewrite andb_false_r. reflexivity. Qed.

Lemma resize_fill_shrink_false (a : arr Z) n (v : Z) : asize a <? n = false ->
  resize_fill false a n v = (mkArr n (realloc (adata a) n), [EFree []]).
Proof. intros H. unfold resize_fill. cbn [destroy_range]. rewrite H. reflexivity. Qed.

(* ---------- the specification side of resize ---------- *)

Lemma sresize_shrink (d : list (slot Z)) n fill : 0 <= n <= Zlen d ->
  sresize (map abs_slot d) n fill = map abs_slot (firstn (Z.to_nat n) d).
Proof.
  intros H. unfold sresize. rewrite map_length.
  replace (Z.to_nat n - length d)%nat with 0%nat by (unfold Zlen in H; lia).
  cbn [repeat]. rewrite app_nil_r. apply firstn_map.
Qed.

Lemma sresize_grow (d : list (slot Z)) n v : Zlen d <= n ->
  sresize (map abs_slot d) n (Some v)
  = map abs_slot (d ++ map Live (repeat v (Z.to_nat n - length d))).
Proof.
  intros H. unfold sresize. rewrite map_length.
  rewrite firstn_all2 by (rewrite map_length; unfold Zlen in H; lia).
  rewrite map_app, abs_map_live, map_repeat. reflexivity.
Qed.

Lemma sresize_realloc (d : list (slot Z)) n :
  sresize (map abs_slot d) n None = map abs_slot (realloc d n).
Proof.
  unfold sresize, realloc. rewrite map_length, map_app, firstn_map, abs_repeat_raw. reflexivity.
Qed.

Lemma skipn_abs n (d : list (slot Z)) : somes (skipn n (map abs_slot d)) = slot_vals (skipn n d).
Proof. rewrite skipn_map. apply somes_abs. Qed.
