(* Properties_C16.v — Observable notifies exactly on change, with the new value.
   Only statements, each closed by [exact <lemma of ObservableProofs>], and Print Assumptions.
   T and Eq are arbitrary: Eq is any boolean function, not assumed to be an equivalence. *)
From Coq Require Import List ZArith Bool Lia.
From Tulz Require Import Common ObservableModel ObservableProofs.
Import ListNotations.
Local Open Scope Z_scope.

(* assignment: Eq-equal => nothing at all changes (value untouched, nobody notified);
   otherwise the value is stored and every live subscriber is notified once with it *)
Theorem C16_assign : forall (T : Type) (eq : T -> T -> bool) v0 ops v,
  let s := orun eq (oinit v0) ops in
  let s' := fst (ostep eq s (OAssign v)) in
  snd (ostep eq s (OAssign v)) = None /\
  (eq (oval s) v = true -> s' = s) /\
  (eq (oval s) v = false -> oval s' = v /\ notified_once s s' v).
Proof. exact assign_spec. Qed.
Print Assumptions C16_assign.

(* apply / compound assignment: the value always becomes f(old); subscribers are notified
   once with it iff Eq(old, f(old)) is false, and not at all otherwise *)
Theorem C16_apply : forall (T : Type) (eq : T -> T -> bool) v0 ops f,
  let s := orun eq (oinit v0) ops in
  let s' := fst (ostep eq s (OApply f)) in
  oval s' = f (oval s) /\
  (eq (oval s) (f (oval s)) = true -> olog s' = olog s /\ osubs s' = osubs s) /\
  (eq (oval s) (f (oval s)) = false -> notified_once s s' (f (oval s))).
Proof. exact apply_spec. Qed.
Print Assumptions C16_apply.

(* increment / decrement always notify once with the new value, whatever Eq says; the postfix
   form returns the old value, the prefix form the new one *)
Theorem C16_step : forall (T : Type) (eq : T -> T -> bool) v0 ops f,
  let s := orun eq (oinit v0) ops in
  (let r := ostep eq s (OStepPost f) in
   oval (fst r) = f (oval s) /\ snd r = Some (oval s) /\ notified_once s (fst r) (f (oval s))) /\
  (let r := ostep eq s (OStepPre f) in
   oval (fst r) = f (oval s) /\ snd r = Some (f (oval s)) /\ notified_once s (fst r) (f (oval s))).
Proof. exact step_spec. Qed.
Print Assumptions C16_step.

(* no other operation notifies anybody or changes the value *)
Theorem C16_quiet : forall (T : Type) (eq : T -> T -> bool) (s : ostate T) o,
  match o with OAssign _ | OApply _ | OStepPost _ | OStepPre _ => False | _ => True end ->
  olog (fst (ostep eq s o)) = olog s /\ oval (fst (ostep eq s o)) = oval s.
Proof. exact quiet_spec. Qed.
Print Assumptions C16_quiet.

(* with the default equality (Eq decides equality of T) a recording subscriber that holds
   value() and stays subscribed, valid and unmuted holds value() after every history *)
Theorem C16_recorder_current : forall (T : Type) (eq : T -> T -> bool),
  (forall a b, eq a b = true <-> a = b) ->
  forall v0 ops0 ops id,
  let s := orun eq (oinit v0) ops0 in
  In id (live s) ->
  Forall (fun o => touches T id o = false) ops ->
  let s' := orun eq s ops in
  exists new, olog s' = new ++ olog s /\ recorded T (oval s) new id = oval s'.
Proof. exact recorder_current. Qed.
Print Assumptions C16_recorder_current.

(* ... and this fails for an Eq that is coarser than equality (the tolerance comparator):
   the recorder keeps 0 while value() was changed to 1 by apply *)
Example C16_recorder_needs_equality :
  let eq := fun a b : Z => Z.abs (a - b) <? 10 in
  let s := orun eq (oinit 0) [OSubscribe; OApply (fun _ => 1)] in
  oval s = 1 /\ recorded Z 0 (olog s) 0%nat = 0.
Proof. vm_compute. split; reflexivity. Qed.

Example C16_nonvacuous :
  let s := orun Z.eqb (oinit 5) [OSubscribe; OSubscribe; OMute 1; OAssign 5; OAssign 7; OInval 0; OApply (fun x => x + 0);
                                 OUnmute 1; OStepPost Z.succ; OAssign 9] in
  (oval s, rev (olog s), map s_id (osubs s)) = (9, [(0%nat, 7); (1%nat, 8); (1%nat, 9)], [1%nat]).
Proof. vm_compute. reflexivity. Qed.
